import sys
L=int(sys.argv[1])
print(f'''
let pad = "{'p'*L}" .. "q"
var keep = [pad]
var i = 0
var bad = 0
while i < 40 {{
  let x = array_pop(["a" .. i])
  let y = "zzzzzzzz" .. i
  let z = "yyyyyyyy" .. i
  if x != "a" .. i {{
    bad = bad + 1
  }}
  i = i + 1
}}
println(bad)
''')
