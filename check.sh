#!/bin/sh
# usage: check.sh <property id> <quick|thorough>
# Rebuilds the simulator against /repo's current working tree (abra_core is a path dependency
# built with the abra_verif feature), then runs the property's check.
# exit 0: property held on everything explored; 1: VIOLATION line printed; 2: harness error.
prop="$1"
tier="${2:-${VERIF_TIER:-quick}}"
cd /verif/sim || { echo "HARNESS-ERROR: /verif/sim missing"; exit 2; }
if ! CARGO_NET_OFFLINE=true cargo build --offline >/verif/sim/build.log 2>&1; then
    tail -40 /verif/sim/build.log
    echo "HARNESS-ERROR: the simulator (or abra_core with the abra_verif feature) does not build"
    exit 2
fi
exec ./target/debug/sim check "$prop" --tier "$tier"
