//! Workloads: Abra programs rendered from seed-driven descriptions, together with what the
//! generator knows about their behaviour (the model side of the oracles).

use serde::{Deserialize, Serialize};

#[derive(Serialize, Deserialize, Clone, Debug, PartialEq, Eq)]
pub enum Projection {
    /// every thread's own sequence of host calls must equal the reference run's
    AllThreads,
    /// only main's sequence of host calls is schedule-independent
    MainOnly,
    /// nothing is compared with the reference (interleaving-dependent by construction)
    None,
}

#[derive(Serialize, Deserialize, Clone, Debug, Default)]
pub struct Expect {
    /// expected observations `(tag, payload)` of main, in order, from the generator's model
    pub main_obs: Option<Vec<(i64, String)>>,
    /// expected observations of main as a multiset (interleaving-tolerant)
    pub main_obs_sorted: Option<Vec<(i64, String)>>,
    /// digest of the value of the final expression statement
    pub final_top: Option<String>,
    /// the program must stop with a runtime error whose first line starts with this
    pub error_prefix: Option<String>,
    /// ... reported at this line (innermost frame) ...
    pub error_line: Option<u32>,
    /// ... of this file (main.abra if absent)
    #[serde(default)]
    pub error_file: Option<String>,
    /// expected rendered host calls of main (arguments as handed to the host), in order
    pub main_host_calls: Option<Vec<String>>,
    /// at the end every written message has been read
    pub drains: bool,
    /// the program is built to terminate under every schedule
    pub terminating: bool,
}

#[derive(Serialize, Deserialize, Clone, Debug)]
pub struct Workload {
    pub family: String,
    /// what this particular program is about (for reports and evidence samples)
    pub descr: String,
    pub main_src: String,
    /// further files of the program: (path, contents)
    pub extra_files: Vec<(String, String)>,
    pub has_tasks: bool,
    pub projection: Projection,
    pub expect: Expect,
}

impl Workload {
    pub fn new(family: &str, descr: String, main_src: String) -> Self {
        Workload {
            family: family.to_string(),
            descr,
            main_src,
            extra_files: vec![],
            has_tasks: false,
            projection: Projection::AllThreads,
            expect: Expect {
                terminating: true,
                ..Default::default()
            },
        }
    }

    pub fn neutral_budget(&self) -> u32 {
        // a reader busy-waiting on an empty channel burns its whole slice before the embedder
        // gets to service the parked writer, so programs with tasks never get u32::MAX
        if self.has_tasks { 4096 } else { u32::MAX }
    }
}

/// Abra string literal for `s` (the generators only use characters that need no escaping)
pub fn lit(s: &str) -> String {
    debug_assert!(!s.contains('"') && !s.contains('\\') && !s.contains('\n'));
    format!("\"{s}\"")
}

pub mod arr;
pub mod bounded;
pub mod cap;
pub mod conc;
pub mod gc;
pub mod status;
pub mod strs;
pub mod tytree;
