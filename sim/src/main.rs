mod cell;
mod corpus;
mod driver;
mod embed;
mod generated {
    include!(concat!(env!("OUT_DIR"), "/mod.rs"));
}
mod judge;
mod plan;
mod replay;
mod rng;
mod workload;

use plan::Tier;

pub mod mem {
    //! counting global allocator: live and peak bytes of the whole cell process
    use std::alloc::{GlobalAlloc, Layout, System};
    use std::sync::atomic::{AtomicUsize, Ordering::Relaxed};

    pub struct Counting;
    static LIVE: AtomicUsize = AtomicUsize::new(0);
    static PEAK: AtomicUsize = AtomicUsize::new(0);

    unsafe impl GlobalAlloc for Counting {
        unsafe fn alloc(&self, layout: Layout) -> *mut u8 {
            let p = unsafe { System.alloc(layout) };
            if !p.is_null() {
                let now = LIVE.fetch_add(layout.size(), Relaxed) + layout.size();
                PEAK.fetch_max(now, Relaxed);
            }
            p
        }
        unsafe fn dealloc(&self, p: *mut u8, layout: Layout) {
            unsafe { System.dealloc(p, layout) };
            LIVE.fetch_sub(layout.size(), Relaxed);
        }
        unsafe fn realloc(&self, p: *mut u8, layout: Layout, new_size: usize) -> *mut u8 {
            let q = unsafe { System.realloc(p, layout, new_size) };
            if !q.is_null() {
                if new_size >= layout.size() {
                    let now = LIVE.fetch_add(new_size - layout.size(), Relaxed) + new_size - layout.size();
                    PEAK.fetch_max(now, Relaxed);
                } else {
                    LIVE.fetch_sub(layout.size() - new_size, Relaxed);
                }
            }
            q
        }
    }

    pub fn live() -> usize {
        LIVE.load(Relaxed)
    }
    pub fn peak() -> usize {
        PEAK.load(Relaxed)
    }
    pub fn reset_peak() {
        PEAK.store(LIVE.load(Relaxed), Relaxed);
    }
}

#[global_allocator]
static GLOBAL: mem::Counting = mem::Counting;

pub const HOST_SRC: &str = include_str!("../abra_host/simhost.abra");

fn arg<'a>(args: &'a [String], name: &str) -> Option<&'a str> {
    args.iter()
        .position(|a| a == name)
        .and_then(|i| args.get(i + 1))
        .map(|s| s.as_str())
}

fn tier_of(args: &[String]) -> Tier {
    match arg(args, "--tier") {
        Some("thorough") => Tier::Thorough,
        _ => Tier::Quick,
    }
}

fn main() {
    // panics inside the VM are caught and judged by the embedder loop; keep stderr quiet
    std::panic::set_hook(Box::new(|_| {}));
    let args: Vec<String> = std::env::args().collect();
    match args.get(1).map(|s| s.as_str()) {
        Some("gen") => {
            let prop = arg(&args, "--prop").unwrap();
            let seed: u64 = arg(&args, "--seed").unwrap().parse().unwrap();
            let index: u64 = arg(&args, "--index").map(|s| s.parse().unwrap()).unwrap_or(0);
            let mut rng = rng::Rng::new(rng::mix(seed, 1));
            let w = plan::workload(prop, tier_of(&args), &mut rng, index);
            println!("// family={} {}\n{}", w.family, w.descr, w.main_src);
            println!("// expect: {}", serde_json::to_string(&w.expect).unwrap());
        }
        Some("cell") => {
            let prop = arg(&args, "--prop").unwrap();
            let seed: u64 = arg(&args, "--seed").unwrap().parse().unwrap();
            let index: u64 = arg(&args, "--index").map(|s| s.parse().unwrap()).unwrap_or(0);
            let tier = tier_of(&args);
            let mut rng = rng::Rng::new(rng::mix(seed, 1));
            let w = match arg(&args, "--corpus") {
                Some(path) => {
                    let text = std::fs::read_to_string(path).expect("corpus file");
                    let c: corpus::CorpusProgram = serde_json::from_str(&text).expect("corpus json");
                    corpus::workload_of(&c)
                }
                None => plan::workload(prop, tier, &mut rng, index),
            };
            let rep = cell::run_cell(prop, tier, seed, w, args.iter().any(|a| a == "--keep-workload"));
            println!("REPORT {}", serde_json::to_string(&rep).unwrap());
        }
        Some("check") => {
            let prop = args.get(2).expect("property id");
            let seed: u64 = std::env::var("VERIF_SEED").ok().and_then(|s| s.parse().ok()).unwrap_or(1);
            let tier = match (arg(&args, "--tier"), std::env::var("VERIF_TIER").ok().as_deref()) {
                (Some("thorough"), _) => Tier::Thorough,
                (Some(_), _) => Tier::Quick,
                (None, Some("thorough")) => Tier::Thorough,
                _ => Tier::Quick,
            };
            println!("VERIF_SEED={seed} property={prop} tier={}", tier.name());
            std::process::exit(driver::check(prop, tier, seed));
        }
        Some("selfcheck") => {
            let seed: u64 = std::env::var("VERIF_SEED").ok().and_then(|s| s.parse().ok()).unwrap_or(1);
            let cells: u64 = arg(&args, "--cells").map(|s| s.parse().unwrap()).unwrap_or(24);
            let props: Vec<String> = match arg(&args, "--props") {
                Some(p) => p.split(',').map(|s| s.to_string()).collect(),
                None => ["C01", "C06", "C07", "C08", "C09", "C10", "C11", "C17", "C26"].iter().map(|s| s.to_string()).collect(),
            };
            std::process::exit(driver::selfcheck(&props, cells, seed));
        }
        Some("replay") => {
            let path = args.get(2).expect("replay file");
            let quiet = args.iter().any(|a| a == "--quiet");
            let text = match std::fs::read_to_string(path) {
                Ok(t) => t,
                Err(e) => {
                    println!("HARNESS-ERROR: cannot read {path}: {e}");
                    std::process::exit(2);
                }
            };
            let r: replay::Replay = match serde_json::from_str(&text) {
                Ok(r) => r,
                Err(e) => {
                    println!("HARNESS-ERROR: {path} is not a replay file: {e}");
                    std::process::exit(2);
                }
            };
            if r.kind == "cell" {
                // the recorded violation is the death of the cell process: run the cell again
                let tier = if r.tier == "thorough" { Tier::Thorough } else { Tier::Quick };
                let run = driver::spawn_cell(&r.property, tier, r.cell_seed, r.cell_index, &[]);
                if let Some((why, last)) = run.aborted {
                    println!("reproduced: the cell process died again during run {last}: {why}");
                    println!("VIOLATION property={} replay={path}", r.property);
                    std::process::exit(1);
                }
                println!("not reproduced: the cell completed");
                std::process::exit(0);
            }
            match replay::execute(&r) {
                replay::ReplayOutcome::Reproduced(v, recent) => {
                    if !quiet {
                        if args.iter().any(|a| a == "--verbose") {
                            if let Some(w) = &r.workload {
                                println!("---- program ({}; {}) ----\n{}", w.family, w.descr, w.main_src);
                            }
                            println!("---- schedule ----\n{}", serde_json::to_string(&r.trace).unwrap_or_default());
                            println!("---- last events ----");
                            for e in &recent {
                                println!("{e}");
                            }
                        }
                        println!("reproduced: oracle={} :: {}", v.oracle, v.msg);
                        println!("VIOLATION property={} replay={path}", r.property);
                    }
                    std::process::exit(1);
                }
                replay::ReplayOutcome::NotReproduced(why) => {
                    if !quiet {
                        println!("not reproduced: {why}");
                    }
                    std::process::exit(0);
                }
                replay::ReplayOutcome::Rejected(why) => {
                    if !quiet {
                        println!("HARNESS-ERROR: replay rejected: {why}");
                    }
                    std::process::exit(2);
                }
            }
        }
        Some("corpus") => {
            for c in corpus::extract_all() {
                println!("{} files={:?} lines={}", c.name, c.files.keys().collect::<Vec<_>>(), c.files["main.abra"].lines().count());
            }
        }
        Some("runfile") => {
            // debugging aid: run a hand-written program as a workload without a model
            let src = std::fs::read_to_string(&args[2]).unwrap();
            let prop = arg(&args, "--prop").unwrap_or("C06");
            let seed: u64 = arg(&args, "--seed").map(|s| s.parse().unwrap()).unwrap_or(1);
            let mut w = workload::Workload::new("file", args[2].clone(), src);
            w.has_tasks = w.main_src.contains("task {");
            if w.has_tasks {
                w.projection = workload::Projection::MainOnly;
            }
            let rep = cell::run_cell(prop, tier_of(&args), seed, w, false);
            println!("{}", serde_json::to_string_pretty(&rep).unwrap());
        }
        _ => {
            eprintln!("usage: sim gen|cell|check|replay ...");
            std::process::exit(2);
        }
    }
}
