//! The simulated embedder: the only thing that ever calls into a `Runtime` in this crate.
//!
//! One call of [`run_once`] is one simulated run: a fresh `Runtime` of an already compiled program
//! is driven to completion by a loop that plays the embedder's part (choosing step budgets,
//! servicing or deferring pending host calls) while an installed controller plays the pacing
//! heuristic's part (deciding when the collector starts a cycle and how much it marks / sweeps
//! before each instruction). Every such choice is one entry of the decision trace; in seed mode the
//! entries are drawn from the run's PRNG, in trace mode they are read back. Nothing else in a run
//! is nondeterministic, so a run is a pure function of (compiled program, trace).

use crate::generated::*;
use crate::rng::{Fnv, Rng};
use abra_core::verif::{self, Controller, Event, GcAction, GcCtx, GcPhase};
use abra_core::vm::{Instr, Runtime, RuntimeStatusKind};
use serde::{Deserialize, Serialize};
use std::cell::RefCell;
use std::collections::{BTreeMap, HashMap, HashSet, VecDeque};
use std::panic::{AssertUnwindSafe, catch_unwind};
use std::rc::Rc;

// ------------------------------------------------------------------------------------------------
// decision trace

#[derive(Serialize, Deserialize, Clone, Copy, Debug, PartialEq, Eq)]
pub enum GcBase {
    /// where the trace says nothing, the production heuristic decides
    Default,
    /// where the trace says nothing, the collector does nothing (reference runs)
    Off,
}

#[derive(Serialize, Deserialize, Clone, Copy, Debug, PartialEq, Eq)]
pub struct GcRun {
    /// index of the first collector decision (= global instruction number) this entry covers
    pub at: u64,
    /// how many consecutive decisions it covers
    pub n: u64,
    pub start: bool,
    pub mark: u32,
    pub sweep: u32,
}

#[derive(Serialize, Deserialize, Clone, Debug, PartialEq, Eq)]
pub struct Trace {
    pub gc_base: GcBase,
    /// budget used for calls beyond the end of `budgets`
    pub neutral_budget: u32,
    /// run-length encoded budgets of successive `run_n_steps` calls: (k, count)
    pub budgets: Vec<(u32, u32)>,
    /// indices (in the sequence of serve decisions) answered "defer"; everything else is served
    pub defers: Vec<u64>,
    /// explicit collector decisions, ascending and non-overlapping; elsewhere `gc_base` applies
    pub gc: Vec<GcRun>,
}

impl Trace {
    pub fn neutral(gc_base: GcBase, neutral_budget: u32) -> Self {
        Trace {
            gc_base,
            neutral_budget,
            budgets: vec![],
            defers: vec![],
            gc: vec![],
        }
    }

    fn push_budget(&mut self, k: u32) {
        if let Some(last) = self.budgets.last_mut()
            && last.0 == k
            && last.1 < u32::MAX
        {
            last.1 += 1;
            return;
        }
        self.budgets.push((k, 1));
    }

    fn push_gc(&mut self, at: u64, start: bool, mark: u32, sweep: u32) {
        if let Some(last) = self.gc.last_mut()
            && last.at + last.n == at
            && last.start == start
            && last.mark == mark
            && last.sweep == sweep
        {
            last.n += 1;
            return;
        }
        self.gc.push(GcRun {
            at,
            n: 1,
            start,
            mark,
            sweep,
        });
    }

    /// number of non-neutral entries (the unit the minimiser works on)
    pub fn weight(&self) -> usize {
        self.budgets.len() + self.defers.len() + self.gc.len()
    }
}

// ------------------------------------------------------------------------------------------------
// personalities (seed mode)

#[derive(Serialize, Deserialize, Clone, Debug, PartialEq)]
pub enum Budget {
    Const(u32),
    Alt(u32, u32),
    /// uniform in 1..=n
    Small(u32),
    /// log-uniform in 1..=max, with `zero_pct` percent of calls given a budget of 0
    Log { max: u32, zero_pct: u8 },
    /// `k1` until `at` instructions have run, then `k2`
    TwoPhase { k1: u32, at: u64, k2: u32 },
}

#[derive(Serialize, Deserialize, Clone, Debug, PartialEq)]
pub enum GcTemplate {
    /// collector never runs (reference)
    Off,
    /// production heuristic, untouched
    Default,
    /// a complete cycle before every instruction
    FullEveryStep,
    /// one increment (start, or one grey object, or one swept object) before every instruction
    OneInc,
    /// start, then no marking for `starve` instructions, then finish in one go
    StarveThenFinish { starve: u32 },
    /// start with probability 1/p per instruction, random increments
    RandomSparse { p: u32 },
    /// start whenever idle with probability 1/2, random small increments
    RandomDense,
    /// like RandomSparse, but starts are biased to land right before interesting instructions
    Targeted { p: u32 },
    /// a cycle opens exactly at a channel read (one read in `p`): everything unreachable at that
    /// moment is found dead at once, and the sweep is held open for as long as the task stays at
    /// a channel read, then proceeds one object per instruction - so the value received is built
    /// while the collector still has dead objects of the receiving task to reclaim
    CycleAtRead { p: u32 },
    /// exactly one forced cycle starting at decision `start_at`, with fixed increments per
    /// instruction; otherwise the collector is off (used for the exhaustive start-point sweeps)
    SingleCycle { start_at: u64, mark: u32, sweep: u32 },
    /// production heuristic plus forced starts with probability 1/p
    DefaultPlusForced { p: u32 },
    /// exactly one cycle, forced to start at decision `start_at`, then paced by the production
    /// code itself (one `process_gray` / `sweep` call with its byte budget per instruction);
    /// no other cycle is allowed to start
    SingleStartThenDefault { start_at: u64 },
}

#[derive(Serialize, Deserialize, Clone, Debug, PartialEq)]
pub struct Personality {
    pub budget: Budget,
    /// percent chance that a parked task starts a stall when first seen by the embedder
    pub stall_pct: u8,
    /// a stall lasts 1..=stall_max embedder turns
    pub stall_max: u32,
    /// only main's host calls may be stalled (C10 part 2)
    pub stall_main_only: bool,
    pub gc: GcTemplate,
    /// faults (non-neutral decisions) stop once this many instructions have run
    pub fault_window: u64,
    /// the budget used once faults have stopped (and by reference runs): the workload's neutral
    /// budget, so that busy-waiting costs the same per host call as in the reference run
    #[serde(default = "default_neutral")]
    pub neutral: u32,
}

fn default_neutral() -> u32 {
    4096
}

impl Personality {
    pub fn reference(neutral_budget: u32) -> Self {
        Personality {
            budget: Budget::Const(neutral_budget),
            stall_pct: 0,
            stall_max: 0,
            stall_main_only: false,
            gc: GcTemplate::Off,
            fault_window: u64::MAX,
            neutral: neutral_budget,
        }
    }
}

#[derive(Clone)]
pub enum Source {
    Seed { rng: Rng, p: Personality },
    Trace(Trace),
}

// ------------------------------------------------------------------------------------------------
// results

#[derive(Serialize, Deserialize, Clone, Debug, PartialEq, Eq)]
pub struct Violation {
    /// stable identifier of the oracle that fired, e.g. "fault:use-after-free"
    pub oracle: String,
    pub msg: String,
}

#[derive(Serialize, Deserialize, Clone, Debug, PartialEq, Eq)]
pub enum Outcome {
    Done,
    /// main stopped with a documented runtime error; the full rendered error text
    Error(String),
    /// internal fault (panic out of the VM, hook violation, internal error kind)
    Fault,
    /// step cap reached
    Cap,
    /// the embedder dropped the runtime early on purpose
    Dropped,
    /// main has not finished, no host call is pending, and no task can run any more
    Stalled,
}

#[derive(Serialize, Deserialize, Clone, Debug, Default, PartialEq, Eq)]
pub struct Observed {
    /// (thread ordinal, text) in global order
    pub prints: Vec<(u32, String)>,
    /// (thread ordinal, tag, payload) in global order
    pub obs: Vec<(u32, i64, String)>,
    /// (thread ordinal, rendered call with arguments) in global order of servicing
    pub host_calls: Vec<(u32, String)>,
    /// digest of the top of main's stack after Done, if there is one
    pub final_top: Option<String>,
}

impl Observed {
    /// per-thread projection: what each thread printed / observed, in its own order
    pub fn per_thread(&self) -> BTreeMap<u32, Vec<String>> {
        let mut m: BTreeMap<u32, Vec<String>> = BTreeMap::new();
        // prints and obs of one thread are totally ordered between themselves because a thread
        // has at most one host call pending; merge by reconstructing from the two global logs
        for (t, idx, s) in self.merged() {
            let _ = idx;
            m.entry(t).or_default().push(s);
        }
        m
    }

    fn merged(&self) -> Vec<(u32, usize, String)> {
        // host_calls has every serviced call in global order, prints/obs are subsets of it; use it
        // as the order
        self.host_calls
            .iter()
            .enumerate()
            .map(|(i, (t, s))| (*t, i, s.clone()))
            .collect()
    }
}

pub struct RunResult {
    pub outcome: Outcome,
    pub observed: Observed,
    pub violations: Vec<Violation>,
    pub trace: Trace,
    pub hash: u64,
    pub steps: u64,
    pub calls: u64,
    pub idle_turns: u64,
    pub counters: BTreeMap<String, u64>,
    /// (collector phase, instruction kind) pairs executed
    pub phase_instr: HashSet<(u8, String)>,
    pub recent: Vec<String>,
    pub n_threads: u32,
    /// per thread ordinal: statistics at the end of the run (before the drop)
    #[allow(dead_code)]
    pub thread_stats: Vec<ThreadStat>,
    /// set when the completeness probe ran: live objects per thread after two quiescent full GCs
    pub live_after_full_gc: Option<Vec<usize>>,
    pub unread_messages: u64,
    pub string_steps: Vec<u64>,
    /// largest sum of the threads' heap sizes seen at the end of a run_n_steps call
    pub peak_heap: usize,
    /// heap size of every thread at that moment
    pub peak_heap_threads: Vec<usize>,
}

#[derive(Serialize, Deserialize, Clone, Debug)]
pub struct ThreadStat {
    pub ordinal: u32,
    pub is_main: bool,
    pub done: bool,
    pub failed: bool,
    pub parked: bool,
    pub heap_objects: usize,
    pub heap_size: usize,
    pub allocs: u64,
    pub frees: u64,
    pub cycles: u64,
    /// collector phase at the end of the run: 0 idle, 1 marking, 2 sweeping
    pub phase: u8,
    pub string_op_in_flight: bool,
}

// ------------------------------------------------------------------------------------------------
// simulator state shared between the embedder loop and the installed controller

#[derive(Clone, Copy)]
struct Recent {
    seq: u64,
    thread: u32,
    pc: u32,
    instr: Option<Instr>,
    phase: u8,
    note: &'static str,
}

#[derive(Default, Clone)]
struct ThreadModel {
    ordinal: u32,
    parked: bool,
    finished: bool,
    failed: bool,
    dropped: bool,
    /// the channel this task found empty at its latest read attempt (cleared by its next turn)
    blocked_on: Option<u64>,
    /// global Step count at this thread's latest Step (or at its spawn)
    last_step_seq: u64,
    steps: u64,
}

#[derive(Serialize, Deserialize, Clone, Debug, PartialEq)]
pub struct RunOptions {
    pub step_cap: u64,
    /// collector self-check rate (0 = off); quarantine on/off
    pub selfcheck_every: u32,
    pub quarantine: bool,
    /// after main is Done / failed, call run_n_steps this many more times and require the same
    /// report (C11)
    pub post_done_calls: u32,
    /// at the end of the run, perform two quiescent full collections and record live objects
    pub completeness_probe: bool,
    /// drop the runtime once this many instructions have run (lifecycle fault); u64::MAX = never
    pub drop_at_step: u64,
    /// never service host calls of this thread ordinal (abandoned host call), u32::MAX = none
    pub abandon_thread: u32,
    /// bound for the "every runnable task keeps running" invariant, in scheduler turns per task
    pub progress_window_factor: u64,
    /// first value the host's `next_int()` returns (workload size parameter of W-bounded)
    #[serde(default = "default_next_int")]
    pub next_int_base: i64,
    /// remember which steps executed a resumable string instruction (reference runs only)
    #[serde(default)]
    pub record_string_steps: bool,
}

fn default_next_int() -> i64 {
    100
}

impl Default for RunOptions {
    fn default() -> Self {
        RunOptions {
            step_cap: 2_000_000,
            selfcheck_every: 1,
            quarantine: true,
            post_done_calls: 0,
            completeness_probe: false,
            drop_at_step: u64::MAX,
            abandon_thread: u32::MAX,
            progress_window_factor: 2000,
            next_int_base: 100,
            record_string_steps: false,
        }
    }
}

pub struct Sim {
    src: Source,
    pub rec: Trace,
    gc_idx: u64,
    gc_cursor: usize,
    serve_idx: u64,
    defer_cursor: usize,
    budget_cursor: (usize, u32),
    stalls: HashMap<u32, u32>,
    alt_flip: bool,
    single_cycle_started: bool,
    single_cycle_done: bool,
    single_cycle_thread: u64,
    starve_left: u32,
    forced_start_pending: bool,
    sweep_asap: HashSet<u64>,

    hash: Fnv,
    seq: u64,
    step_seq: u64,
    threads: HashMap<u64, ThreadModel>,
    next_ordinal: u32,
    steps_in_call: u64,
    main_stopped: bool,
    main_failed: Option<String>,
    in_call: bool,

    chans: HashMap<u64, VecDeque<String>>,
    chan_writes: u64,
    chan_reads: u64,

    pub observed: Observed,
    recent: VecDeque<Recent>,
    pub violations: Vec<Violation>,
    pub counters: BTreeMap<&'static str, u64>,
    phase_instr: HashSet<(u8, std::mem::Discriminant<Instr>)>,
    phase_instr_names: HashMap<std::mem::Discriminant<Instr>, String>,
    progress_window_factor: u64,
    faults_active: bool,
    next_int: i64,
    readline_n: u64,
    /// model of the run queue as a rotating list of thread ordinals (probe only, see `turn_probe`)
    turn_queue: VecDeque<u32>,
    /// latest known heap size of every live thread, and the largest sum seen (exact at
    /// instruction granularity: updated whenever the collector seam is consulted)
    heap_now: HashMap<u64, usize>,
    pub heap_peak: usize,
    pub heap_peak_threads: Vec<usize>,
    /// global indices of the steps that executed a resumable string instruction (capped)
    pub string_steps: Vec<u64>,
    record_string_steps: bool,
}

fn phase_u8(p: GcPhase) -> u8 {
    match p {
        GcPhase::Idle => 0,
        GcPhase::Marking => 1,
        GcPhase::Sweeping => 2,
    }
}

pub fn instr_name(i: &Instr) -> String {
    let s = format!("{i:?}");
    s.split(['(', ' ', '{']).next().unwrap_or("").to_string()
}

fn heap_write(i: &Instr) -> bool {
    matches!(
        i,
        Instr::SetIndex(..) | Instr::SetField(..) | Instr::ArrayPush(..)
    )
}

fn allocates(i: &Instr) -> bool {
    matches!(
        i,
        Instr::ConstructStruct(..)
            | Instr::ConstructArray(..)
            | Instr::ConstructVariant { .. }
            | Instr::ConstructChannel
            | Instr::MakeClosure(..)
            | Instr::StringFromInt(..)
            | Instr::StringFromFloat(..)
            | Instr::ChannelRead
            | Instr::SpawnTask(..)
    )
}

pub fn string_instr(i: &Instr) -> bool {
    matches!(
        i,
        Instr::EqualString(..)
            | Instr::LessThanString(..)
            | Instr::LessThanOrEqualString(..)
            | Instr::GreaterThanString(..)
            | Instr::GreaterThanOrEqualString(..)
            | Instr::ConcatStrings(..)
    )
}

/// instructions around which a collection is most likely to expose a collector defect
fn risky(i: &Instr) -> bool {
    matches!(
        i,
        Instr::ArrayPop(..)
            | Instr::GetIndex(..)
            | Instr::GetField(..)
            | Instr::SetIndex(..)
            | Instr::SetField(..)
            | Instr::ArrayPush(..)
            | Instr::ChannelRead
            | Instr::ChannelWrite
            | Instr::SpawnTask(..)
            | Instr::DeconstructStruct
            | Instr::DeconstructArray
            | Instr::DeconstructVariant
            | Instr::MakeClosure(..)
            | Instr::CallFuncObj(..)
            | Instr::Return(..)
    ) || string_instr(i)
}

impl Sim {
    fn new(src: Source, progress_window_factor: u64, next_int_base: i64) -> Self {
        let rec = match &src {
            Source::Seed { p, .. } => Trace::neutral(
                if p.gc == GcTemplate::Off {
                    GcBase::Off
                } else {
                    GcBase::Default
                },
                neutral_budget_of(p),
            ),
            Source::Trace(t) => Trace::neutral(t.gc_base, t.neutral_budget),
        };
        Sim {
            src,
            rec,
            gc_idx: 0,
            gc_cursor: 0,
            serve_idx: 0,
            defer_cursor: 0,
            budget_cursor: (0, 0),
            stalls: HashMap::new(),
            alt_flip: false,
            single_cycle_started: false,
            single_cycle_done: false,
            single_cycle_thread: 0,
            starve_left: 0,
            forced_start_pending: false,
            sweep_asap: HashSet::new(),
            hash: Fnv::default(),
            seq: 0,
            step_seq: 0,
            threads: HashMap::new(),
            next_ordinal: 0,
            steps_in_call: 0,
            main_stopped: false,
            main_failed: None,
            in_call: false,
            chans: HashMap::new(),
            chan_writes: 0,
            chan_reads: 0,
            observed: Observed::default(),
            recent: VecDeque::with_capacity(64),
            violations: vec![],
            counters: BTreeMap::new(),
            phase_instr: HashSet::new(),
            phase_instr_names: HashMap::new(),
            progress_window_factor,
            faults_active: true,
            next_int: next_int_base,
            readline_n: 0,
            turn_queue: VecDeque::new(),
            heap_now: HashMap::new(),
            heap_peak: 0,
            heap_peak_threads: vec![],
            string_steps: vec![],
            record_string_steps: false,
        }
    }

    fn count(&mut self, name: &'static str) {
        *self.counters.entry(name).or_insert(0) += 1;
    }

    fn add(&mut self, name: &'static str, n: u64) {
        *self.counters.entry(name).or_insert(0) += n;
    }

    fn violate(&mut self, oracle: &str, msg: String) {
        // keep the first violation per oracle; the first one overall is what gets reported
        if self.violations.iter().any(|v| v.oracle == oracle) {
            return;
        }
        self.violations.push(Violation {
            oracle: oracle.to_string(),
            msg,
        });
    }

    fn ordinal(&mut self, raw: u64, _is_main: bool) -> u32 {
        if let Some(t) = self.threads.get(&raw) {
            return t.ordinal;
        }
        let ordinal = self.next_ordinal;
        self.next_ordinal += 1;
        self.threads.insert(
            raw,
            ThreadModel {
                ordinal,
                last_step_seq: self.step_seq,
                ..Default::default()
            },
        );
        ordinal
    }

    fn remember(&mut self, thread: u32, pc: u32, instr: Option<Instr>, phase: u8, note: &'static str) {
        if self.recent.len() == 48 {
            self.recent.pop_front();
        }
        self.recent.push_back(Recent {
            seq: self.seq,
            thread,
            pc,
            instr,
            phase,
            note,
        });
    }

    fn render_recent(&self) -> Vec<String> {
        self.recent
            .iter()
            .map(|r| match r.instr {
                Some(i) => format!(
                    "#{} t{} pc={} {:?} gc={}",
                    r.seq,
                    r.thread,
                    r.pc,
                    i,
                    ["idle", "marking", "sweeping"][r.phase as usize]
                ),
                None => format!("#{} t{} {}", r.seq, r.thread, r.note),
            })
            .collect()
    }

    /// hook messages name threads by their process-global id; rewrite them to run-local ordinals
    /// so that a violation reads the same in the run that found it and in every replay
    fn normalise(&self, text: &str) -> String {
        let mut out = String::with_capacity(text.len());
        let bytes = text.as_bytes();
        let mut i = 0;
        while i < bytes.len() {
            let boundary = i == 0 || !(bytes[i - 1] as char).is_alphanumeric();
            if bytes[i] == b't' && boundary {
                let mut j = i + 1;
                while j < bytes.len() && bytes[j].is_ascii_digit() {
                    j += 1;
                }
                let ends = j == bytes.len() || !(bytes[j] as char).is_alphanumeric();
                if j > i + 1 && ends {
                    if let Ok(raw) = text[i + 1..j].parse::<u64>()
                        && let Some(m) = self.threads.get(&raw)
                    {
                        out.push_str(&format!("task#{}", m.ordinal));
                        i = j;
                        continue;
                    }
                }
            }
            // copy one whole character
            let ch_len = text[i..].chars().next().map(|c| c.len_utf8()).unwrap_or(1);
            out.push_str(&text[i..i + ch_len]);
            i += ch_len;
        }
        out
    }

    /// Probe, not an oracle: does the order in which tasks get their turns follow a rotating
    /// queue in which parked and failed tasks keep their place? No property demands that policy
    /// (any fair scheduler satisfies C09 / C10), so a deviation is only counted.
    fn turn_probe(&mut self, t: u32) {
        let n = self.turn_queue.len();
        let mut deviated = false;
        let mut found = false;
        for _ in 0..n {
            let Some(f) = self.turn_queue.pop_front() else { break };
            self.turn_queue.push_back(f);
            if f == t {
                found = true;
                break;
            }
            let runnable = self
                .threads
                .values()
                .find(|m| m.ordinal == f)
                .is_some_and(|m| !m.parked && !m.finished && !m.failed && !m.dropped);
            if runnable {
                deviated = true;
            }
        }
        if !found {
            self.turn_queue.push_back(t);
        } else if deviated {
            self.count("probe_turn_order_deviates_from_rotating_queue");
        }
    }

    fn live_threads(&self) -> u64 {
        self.threads
            .values()
            .filter(|t| !t.finished && !t.failed && !t.dropped)
            .count() as u64
    }

    // ---- decisions -----------------------------------------------------------------------------

    fn faults_open(&mut self) -> bool {
        if !self.faults_active {
            return false;
        }
        if let Source::Seed { p, .. } = &self.src
            && self.step_seq >= p.fault_window
        {
            self.faults_active = false;
            return false;
        }
        true
    }

    fn decide_budget(&mut self, has_tasks_hint: bool) -> u32 {
        let _ = has_tasks_hint;
        let open = self.faults_open();
        let k = match &mut self.src {
            Source::Trace(t) => {
                let (ref mut i, ref mut used) = self.budget_cursor;
                loop {
                    if *i >= t.budgets.len() {
                        break t.neutral_budget;
                    }
                    let (k, n) = t.budgets[*i];
                    if *used < n {
                        *used += 1;
                        break k;
                    }
                    *i += 1;
                    *used = 0;
                }
            }
            Source::Seed { rng, p } => {
                if !open {
                    neutral_budget_of(p)
                } else {
                    match p.budget {
                        Budget::Const(k) => k,
                        Budget::Alt(a, b) => {
                            self.alt_flip = !self.alt_flip;
                            if self.alt_flip { a } else { b }
                        }
                        Budget::Small(n) => rng.range(1, n as u64) as u32,
                        Budget::Log { max, zero_pct } => {
                            if rng.below(100) < zero_pct as u64 {
                                0
                            } else {
                                let bits = 64 - (max as u64).leading_zeros() as u64;
                                let b = rng.below(bits.max(1)) + 1;
                                let hi = ((1u64 << b) - 1).min(max as u64);
                                let lo = (1u64 << (b - 1)).min(hi);
                                rng.range(lo, hi) as u32
                            }
                        }
                        Budget::TwoPhase { k1, at, k2 } => {
                            if self.step_seq < at {
                                // stop exactly at the phase boundary
                                k1.min((at - self.step_seq).min(u32::MAX as u64) as u32)
                            } else {
                                k2
                            }
                        }
                    }
                }
            }
        };
        self.rec.push_budget(k);
        if k == 0 {
            self.count("f1_budget_zero");
        }
        k
    }

    /// true = serve now
    fn decide_serve(&mut self, thread: u32, is_main: bool) -> bool {
        let idx = self.serve_idx;
        self.serve_idx += 1;
        let open = self.faults_open();
        let serve = match &mut self.src {
            Source::Trace(t) => {
                while self.defer_cursor < t.defers.len() && t.defers[self.defer_cursor] < idx {
                    self.defer_cursor += 1;
                }
                !(self.defer_cursor < t.defers.len() && t.defers[self.defer_cursor] == idx)
            }
            Source::Seed { rng, p } => {
                if !open || p.stall_pct == 0 || (p.stall_main_only && !is_main) {
                    self.stalls.remove(&thread);
                    true
                } else {
                    match self.stalls.get_mut(&thread) {
                        Some(0) => {
                            self.stalls.remove(&thread);
                            true
                        }
                        Some(n) => {
                            *n -= 1;
                            false
                        }
                        None => {
                            if rng.below(100) < p.stall_pct as u64 {
                                // geometric-ish: short stalls are common, long ones happen
                                let mut len = 1;
                                while len < p.stall_max && rng.chance(2, 3) {
                                    len += 1;
                                }
                                self.stalls.insert(thread, len - 1);
                                false
                            } else {
                                true
                            }
                        }
                    }
                }
            }
        };
        if !serve {
            self.rec.defers.push(idx);
            self.count("f2_defer");
        }
        serve
    }

    fn note_heap(&mut self, thread: u64, size: usize) {
        let old = self.heap_now.insert(thread, size);
        if old.is_none_or(|o| size > o) {
            let total: usize = self.heap_now.values().sum();
            if total > self.heap_peak {
                self.heap_peak = total;
                let mut v: Vec<usize> = self.heap_now.values().copied().collect();
                v.sort_unstable_by(|a, b| b.cmp(a));
                self.heap_peak_threads = v;
            }
        }
    }

    fn decide_gc(&mut self, ctx: &GcCtx) -> GcAction {
        let idx = self.gc_idx;
        self.gc_idx += 1;
        self.note_heap(ctx.thread, ctx.heap_size);
        let open = self.faults_open();
        // steering: a thread whose marking ended with an unmarked reachable object gets its
        // sweep finished right away so the latent loss becomes observable while still in use
        if ctx.phase == GcPhase::Sweeping && self.sweep_asap.remove(&ctx.thread) {
            if let Source::Seed { .. } = self.src {
                self.rec.push_gc(idx, false, 0, u32::MAX);
                return GcAction::Do {
                    start: false,
                    mark: 0,
                    sweep: u32::MAX,
                };
            }
        }
        let explicit: Option<(bool, u32, u32)> = match &mut self.src {
            Source::Trace(t) => {
                while self.gc_cursor < t.gc.len()
                    && t.gc[self.gc_cursor].at + t.gc[self.gc_cursor].n <= idx
                {
                    self.gc_cursor += 1;
                }
                match t.gc.get(self.gc_cursor) {
                    Some(r) if r.at <= idx => Some((r.start, r.mark, r.sweep)),
                    _ => None,
                }
            }
            Source::Seed { rng, p } => {
                let interesting = risky(&ctx.next_instr) || ctx.string_op_in_flight;
                let template = if open {
                    p.gc.clone()
                } else if p.gc == GcTemplate::Off {
                    GcTemplate::Off
                } else {
                    GcTemplate::Default
                };
                match template {
                    GcTemplate::Off | GcTemplate::Default => None,
                    GcTemplate::FullEveryStep => Some((true, u32::MAX, u32::MAX)),
                    GcTemplate::OneInc => Some(match ctx.phase {
                        GcPhase::Idle => (true, 0, 0),
                        GcPhase::Marking => (false, 1, 0),
                        GcPhase::Sweeping => (false, 0, 1),
                    }),
                    GcTemplate::StarveThenFinish { starve } => Some(match ctx.phase {
                        GcPhase::Idle => {
                            if ctx.heap_objects > 0 && rng.chance(1, 8) {
                                self.starve_left = rng.range(1, starve.max(1) as u64) as u32;
                                (true, 0, 0)
                            } else {
                                (false, 0, 0)
                            }
                        }
                        GcPhase::Marking => {
                            if self.starve_left > 0 {
                                self.starve_left -= 1;
                                (false, 0, 0)
                            } else {
                                (false, u32::MAX, 0)
                            }
                        }
                        GcPhase::Sweeping => (false, 0, rng.range(1, 4) as u32),
                    }),
                    GcTemplate::RandomSparse { p: pp } | GcTemplate::Targeted { p: pp } => {
                        let targeted = matches!(p.gc, GcTemplate::Targeted { .. });
                        Some(match ctx.phase {
                            GcPhase::Idle => {
                                let odds = if targeted && interesting { 3 } else { pp.max(1) };
                                if ctx.heap_objects > 0 && rng.below(odds as u64) == 0 {
                                    (true, 0, 0)
                                } else {
                                    (false, 0, 0)
                                }
                            }
                            GcPhase::Marking => match rng.below(4) {
                                0 => (false, 0, 0),
                                1 => (false, 1, 0),
                                2 => (false, rng.range(1, 4) as u32, 0),
                                _ => (false, u32::MAX, 0),
                            },
                            GcPhase::Sweeping => match rng.below(4) {
                                0 => (false, 0, 0),
                                1 => (false, 0, 1),
                                2 => (false, 0, rng.range(1, 4) as u32),
                                _ => (false, 0, u32::MAX),
                            },
                        })
                    }
                    GcTemplate::CycleAtRead { p: pp } => {
                        let at_read = matches!(ctx.next_instr, Instr::ChannelRead);
                        Some(match ctx.phase {
                            GcPhase::Idle => {
                                if at_read && ctx.heap_objects > 0 && rng.below(pp.max(1) as u64) == 0 {
                                    (true, u32::MAX, 0)
                                } else {
                                    (false, 0, 0)
                                }
                            }
                            GcPhase::Marking => (false, u32::MAX, 0),
                            GcPhase::Sweeping => {
                                if at_read {
                                    (false, 0, 0)
                                } else {
                                    (false, 0, 1)
                                }
                            }
                        })
                    }
                    GcTemplate::RandomDense => Some(match ctx.phase {
                        GcPhase::Idle => (rng.chance(1, 2), 0, 0),
                        GcPhase::Marking => (false, rng.below(3) as u32, 0),
                        GcPhase::Sweeping => (false, 0, rng.below(4) as u32),
                    }),
                    GcTemplate::SingleCycle {
                        start_at,
                        mark,
                        sweep,
                    } => {
                        if self.single_cycle_done {
                            Some((false, 0, 0))
                        } else if !self.single_cycle_started {
                            if idx >= start_at {
                                self.single_cycle_started = true;
                                self.single_cycle_thread = ctx.thread;
                                Some((true, 0, 0))
                            } else {
                                Some((false, 0, 0))
                            }
                        } else if ctx.thread != self.single_cycle_thread {
                            Some((false, 0, 0))
                        } else {
                            match ctx.phase {
                                GcPhase::Idle => {
                                    self.single_cycle_done = true;
                                    Some((false, 0, 0))
                                }
                                GcPhase::Marking => Some((false, mark, 0)),
                                GcPhase::Sweeping => Some((false, 0, sweep)),
                            }
                        }
                    }
                    GcTemplate::SingleStartThenDefault { start_at } => {
                        if !self.single_cycle_started {
                            if idx >= start_at {
                                self.single_cycle_started = true;
                                self.single_cycle_thread = ctx.thread;
                                Some((true, 0, 0))
                            } else {
                                Some((false, 0, 0))
                            }
                        } else if ctx.thread == self.single_cycle_thread && ctx.phase != GcPhase::Idle {
                            // the cycle is in progress: the production pacing code advances it
                            None
                        } else {
                            Some((false, 0, 0))
                        }
                    }
                    GcTemplate::DefaultPlusForced { p: pp } => {
                        if ctx.phase == GcPhase::Idle
                            && ctx.heap_objects > 0
                            && rng.below(pp.max(1) as u64) == 0
                        {
                            self.forced_start_pending = true;
                            Some((true, 0, 0))
                        } else {
                            None
                        }
                    }
                }
            }
        };
        match explicit {
            Some((start, mark, sweep)) => {
                self.rec.push_gc(idx, start, mark, sweep);
                if start && ctx.phase == GcPhase::Idle {
                    self.count("f4_forced_cycle_start");
                    if ctx.string_op_in_flight {
                        self.count("f4_forced_start_in_string_op");
                    }
                    if risky(&ctx.next_instr) {
                        self.count("f4_forced_start_before_risky_instr");
                    }
                }
                if mark > 0 && ctx.phase == GcPhase::Marking {
                    self.count("f5_mark_increment");
                }
                if sweep > 0 && ctx.phase == GcPhase::Sweeping {
                    self.count("f6_sweep_increment");
                }
                if !start && mark == 0 && sweep == 0 && ctx.phase != GcPhase::Idle {
                    self.count("f7_collector_starved_instr");
                }
                GcAction::Do { start, mark, sweep }
            }
            None => match self.rec.gc_base {
                GcBase::Default => GcAction::Default,
                GcBase::Off => GcAction::Do {
                    start: false,
                    mark: 0,
                    sweep: 0,
                },
            },
        }
    }

    // ---- events --------------------------------------------------------------------------------

    fn on_event(&mut self, ev: &Event) {
        self.seq += 1;
        match ev {
            Event::Step {
                thread,
                is_main,
                pc,
                instr,
                phase,
                string_op_in_flight,
            } => {
                let t = self.ordinal(*thread, *is_main);
                self.turn_probe(t);
                if self.record_string_steps && string_instr(instr) && self.string_steps.len() < 50_000 {
                    self.string_steps.push(self.step_seq);
                }
                self.step_seq += 1;
                self.steps_in_call += 1;
                let ph = phase_u8(*phase);
                self.hash.u64(1 | (t as u64) << 8 | (*pc as u64) << 24 | (ph as u64) << 56);
                self.remember(t, *pc, Some(*instr), ph, "");
                let d = std::mem::discriminant(instr);
                if self.phase_instr.insert((ph, d)) {
                    self.phase_instr_names
                        .entry(d)
                        .or_insert_with(|| instr_name(instr));
                }
                if !self.in_call {
                    self.violate(
                        "sim:step-outside-call",
                        "an instruction executed outside run_n_steps".into(),
                    );
                }
                // probes derived from (phase, instruction)
                if *phase == GcPhase::Marking {
                    if heap_write(instr) {
                        self.count("probe_heap_write_during_marking");
                    }
                    if matches!(instr, Instr::ArrayPop(..)) {
                        self.count("probe_array_pop_during_marking");
                    }
                    if allocates(instr) {
                        self.count("probe_alloc_during_marking");
                    }
                    if *string_op_in_flight {
                        self.count("probe_string_op_step_during_marking");
                    }
                }
                if *phase == GcPhase::Sweeping {
                    if allocates(instr) {
                        self.count("probe_alloc_during_sweeping");
                    }
                    if *string_op_in_flight {
                        self.count("probe_string_op_step_during_sweeping");
                    }
                }
                if matches!(instr, Instr::Stop) {
                    if *is_main {
                        self.main_stopped = true;
                    }
                    if let Some(m) = self.threads.get_mut(thread) {
                        m.finished = true;
                    }
                    self.turn_queue.retain(|x| *x != t);
                }
                // progress invariant: every live, unparked task keeps getting turns
                let live = self.live_threads();
                let window = self.progress_window_factor * (live + 1);
                let now = self.step_seq;
                let mut starved: Option<(u32, u64, Option<u64>)> = None;
                for m in self.threads.values() {
                    if m.finished || m.failed || m.dropped || m.parked {
                        continue;
                    }
                    // a task suspended in a read of a channel that (by the model) holds nothing
                    // is waiting, not starved - whether the VM lets it poll or puts it to sleep
                    if let Some(c) = m.blocked_on
                        && self.chans.get(&c).is_none_or(|q| q.is_empty())
                    {
                        continue;
                    }
                    if now - m.last_step_seq > window {
                        starved = Some((m.ordinal, now - m.last_step_seq, m.blocked_on));
                    }
                }
                if let Some(m) = self.threads.get_mut(thread) {
                    m.last_step_seq = now;
                    m.steps += 1;
                    m.blocked_on = None;
                }
                if let Some((o, gap, blocked_on)) = starved {
                    match blocked_on {
                        Some(c) => self.violate(
                            "live:reader-not-resumed",
                            format!(
                                "task t{o} is suspended in a read of chan{c} although a value has been available in it for {gap} scheduler turns (window {window}, {live} live tasks)"
                            ),
                        ),
                        None => self.violate(
                            "live:task-starved",
                            format!(
                                "task t{o} was runnable but got no turn for {gap} scheduler turns (window {window}, {live} live tasks)"
                            ),
                        ),
                    }
                }
            }
            Event::Spawn {
                parent,
                child,
                ncaptures,
                child_heap_size,
            } => {
                self.note_heap(*child, *child_heap_size);
                let p = self.ordinal(*parent, false);
                let c = self.ordinal(*child, false);
                self.hash.u64(2 | (p as u64) << 8 | (c as u64) << 24 | (*ncaptures as u64) << 40);
                self.remember(c, 0, None, 0, "spawned");
                self.turn_queue.push_back(c);
                self.count("ev_spawn");
            }
            Event::ThreadFailed {
                thread,
                is_main,
                error,
            } => {
                let t = self.ordinal(*thread, *is_main);
                self.hash.u64(3 | (t as u64) << 8);
                self.hash.bytes(error.as_bytes());
                self.remember(t, 0, None, 0, "failed with a runtime error");
                if let Some(m) = self.threads.get_mut(thread) {
                    m.failed = true;
                }
                if *is_main {
                    self.main_failed = Some(error.to_string());
                } else {
                    self.count("f11_task_failed");
                }
            }
            Event::ThreadDropped {
                thread, is_main, ..
            } => {
                let t = self.ordinal(*thread, *is_main);
                self.hash.u64(4 | (t as u64) << 8);
                self.remember(t, 0, None, 0, "dropped (heap freed)");
                if let Some(m) = self.threads.get_mut(thread) {
                    m.dropped = true;
                }
                self.heap_now.remove(thread);
                self.count("ev_thread_dropped");
            }
            Event::ChanNew { thread, chan } => {
                let t = self.ordinal(*thread, false);
                self.hash.u64(5 | (t as u64) << 8 | *chan << 24);
                self.chans.entry(*chan).or_default();
            }
            Event::ChanWrite {
                thread,
                chan,
                digest,
            } => {
                let t = self.ordinal(*thread, false);
                self.hash.u64(6 | (t as u64) << 8 | *chan << 24);
                self.hash.bytes(digest.as_bytes());
                self.remember(t, 0, None, 0, "channel write");
                self.chans
                    .entry(*chan)
                    .or_default()
                    .push_back(digest.to_string());
                self.chan_writes += 1;
                let now = self.step_seq;
                for m in self.threads.values_mut() {
                    if m.blocked_on == Some(*chan) {
                        m.last_step_seq = now;
                    }
                }
            }
            Event::ChanRead {
                thread,
                chan,
                digest,
            } => {
                let t = self.ordinal(*thread, false);
                self.hash.u64(7 | (t as u64) << 8 | *chan << 24);
                self.hash.bytes(digest.as_bytes());
                self.remember(t, 0, None, 0, "channel read");
                self.chan_reads += 1;
                let expected = self.chans.entry(*chan).or_default().pop_front();
                match expected {
                    None => self.violate(
                        "chan:read-without-write",
                        format!("t{t} read {digest} from chan{chan} but every value written to it had already been read"),
                    ),
                    Some(e) if e != *digest => self.violate(
                        "chan:wrong-value",
                        format!("t{t} read {digest} from chan{chan} but the oldest unread value written to it is {e}"),
                    ),
                    _ => {}
                }
            }
            Event::ChanReadBlocked { thread, chan } => {
                let t = self.ordinal(*thread, false);
                self.hash.u64(8 | (t as u64) << 8 | *chan << 24);
                self.count("probe_blocked_read");
                if let Some(m) = self.threads.get_mut(thread) {
                    m.blocked_on = Some(*chan);
                }
                if !self.chans.entry(*chan).or_default().is_empty() {
                    self.violate(
                        "chan:blocked-with-value-available",
                        format!("t{t} found chan{chan} empty although an unread value had been written to it"),
                    );
                }
            }
            Event::HostPending { thread, func } => {
                let t = self.ordinal(*thread, false);
                self.hash.u64(9 | (t as u64) << 8 | (*func as u64) << 24);
                self.remember(t, 0, None, 0, "parked on a host call");
                if let Some(m) = self.threads.get_mut(thread) {
                    m.parked = true;
                }
                let parked = self.threads.values().filter(|m| m.parked && !m.dropped).count();
                if parked >= 2 {
                    self.count("probe_two_tasks_parked");
                }
            }
            Event::GcStart {
                thread,
                string_op_in_flight,
            } => {
                let t = self.ordinal(*thread, false);
                self.hash.u64(10 | (t as u64) << 8);
                self.remember(t, 0, None, 0, "gc cycle start");
                self.count("gc_cycle_started");
                if *string_op_in_flight {
                    self.count("probe_cycle_start_in_string_op");
                }
            }
            Event::GcMarkDone {
                thread,
                checked,
                unmarked_reachable,
            } => {
                let t = self.ordinal(*thread, false);
                self.hash.u64(11 | (t as u64) << 8);
                self.remember(t, 0, None, 0, "gc marking finished");
                if *checked {
                    self.count("selfcheck_mark_termination");
                }
                if *unmarked_reachable > 0 {
                    self.add("probe_unmarked_reachable_at_mark_end", *unmarked_reachable as u64);
                    self.sweep_asap.insert(*thread);
                }
            }
            Event::GcSweepDone {
                thread,
                freed,
                live: _,
            } => {
                let t = self.ordinal(*thread, false);
                self.hash.u64(12 | (t as u64) << 8 | *freed << 24);
                self.remember(t, 0, None, 0, "gc sweep finished");
                self.count("gc_cycle_completed");
                self.add("gc_objects_freed", *freed);
            }
            Event::Probe { thread, name } => {
                let t = self.ordinal(*thread, false);
                self.hash.u64(13 | (t as u64) << 8);
                self.hash.bytes(name.as_bytes());
                let key: &'static str = match *name {
                    "rescan_found_white_root" => "probe_rescan_found_white_root",
                    "barrier_greyed_child" => "probe_barrier_greyed_child",
                    "cross_heap_capture" => "probe_cross_heap_capture",
                    "cross_heap_read" => "probe_cross_heap_read",
                    "heap_accounting_drift" => "probe_heap_accounting_drift",
                    _ => "probe_other",
                };
                self.count(key);
            }
        }
    }
}

fn neutral_budget_of(p: &Personality) -> u32 {
    match p.budget {
        Budget::Const(k) => k,
        _ => p.neutral,
    }
}

struct Ctl(Rc<RefCell<Sim>>);

impl Controller for Ctl {
    fn gc_action(&mut self, ctx: &GcCtx) -> GcAction {
        self.0.borrow_mut().decide_gc(ctx)
    }
    fn event(&mut self, ev: &Event) {
        self.0.borrow_mut().on_event(ev)
    }
}

fn panic_text(e: Box<dyn std::any::Any + Send>) -> String {
    if let Some(s) = e.downcast_ref::<String>() {
        s.clone()
    } else if let Some(s) = e.downcast_ref::<&str>() {
        s.to_string()
    } else {
        "panic with a non-string payload".into()
    }
}

/// classify a panic that escaped the VM
fn fault_violation(text: &str, whence: &str) -> Violation {
    let first = text.lines().next().unwrap_or("").to_string();
    let oracle = if text.starts_with(verif::VIOLATION_PREFIX) {
        if text.contains("use-after-free") {
            "fault:use-after-free"
        } else if text.contains("reachable-object-reclaimed") {
            "fault:reachable-object-reclaimed"
        } else {
            "fault:hook"
        }
    } else if text.contains("expected type") {
        "fault:wrong-type"
    } else if text.contains("internal error") || text.contains("underflow") {
        "fault:internal-error"
    } else {
        "fault:host-panic"
    };
    Violation {
        oracle: oracle.to_string(),
        msg: format!("{whence}: {first}"),
    }
}

fn render_henum(e: &HEnum) -> String {
    match e {
        HEnum::Aa => "Aa".into(),
        HEnum::Bb(n) => format!("Bb({n})"),
        HEnum::Cc((s, n)) => format!("Cc({s:?},{n})"),
    }
}

/// service one pending host call with the real generated bindings; returns the rendered call
fn service(sim: &Rc<RefCell<Sim>>, th: &mut abra_core::vm::VmGreenThread, func: u16, ordinal: u32) {
    let args = HostFunctionArgs::from_vm(th, func);
    let mut s = sim.borrow_mut();
    let rendered = match args {
        HostFunctionArgs::PrintString(text) => {
            s.observed.prints.push((ordinal, text.clone()));
            HostFunctionRet::PrintString.into_vm(th);
            format!("print_string({text:?})")
        }
        HostFunctionArgs::EprintString(text) => {
            s.observed.prints.push((ordinal, format!("[stderr]{text}")));
            HostFunctionRet::EprintString.into_vm(th);
            format!("eprint_string({text:?})")
        }
        HostFunctionArgs::Readline => {
            s.readline_n += 1;
            let line = format!("line{}", s.readline_n);
            HostFunctionRet::Readline(line).into_vm(th);
            "readline()".to_string()
        }
        HostFunctionArgs::GetArgs => {
            HostFunctionRet::GetArgs(vec!["arg0".into(), "arg1".into()]).into_vm(th);
            "get_args()".to_string()
        }
        HostFunctionArgs::Pause => {
            HostFunctionRet::Pause.into_vm(th);
            "pause()".to_string()
        }
        HostFunctionArgs::Obs(tag, payload) => {
            s.observed.obs.push((ordinal, tag, payload.clone()));
            HostFunctionRet::Obs.into_vm(th);
            format!("obs({tag},{payload:?})")
        }
        HostFunctionArgs::NextInt => {
            let v = s.next_int;
            s.next_int += 1;
            HostFunctionRet::NextInt(v).into_vm(th);
            "next_int()".to_string()
        }
        // the echo family answers with a fixed, generator-known transformation of its arguments
        HostFunctionArgs::EchoInt(x) => {
            HostFunctionRet::EchoInt(x.wrapping_add(1000)).into_vm(th);
            format!("echo_int({x})")
        }
        HostFunctionArgs::EchoStr(x) => {
            HostFunctionRet::EchoStr(format!("<{x}>")).into_vm(th);
            format!("echo_str({x:?})")
        }
        HostFunctionArgs::EchoFloat(x) => {
            HostFunctionRet::EchoFloat(x + 0.5).into_vm(th);
            format!("echo_float({:016x})", x.to_bits())
        }
        HostFunctionArgs::EchoBool(x) => {
            HostFunctionRet::EchoBool(!x).into_vm(th);
            format!("echo_bool({x})")
        }
        HostFunctionArgs::EchoMix(a, b, c, d) => {
            let r = format!("echo_mix({a},{b:?},{:016x},{d})", c.to_bits());
            HostFunctionRet::EchoMix(a.wrapping_add(1), format!("{b}x"), c * 2.0, !d).into_vm(th);
            r
        }
        HostFunctionArgs::EchoArr(a) => {
            let r = format!("echo_arr({a:?})");
            let mut out: Vec<String> = a.into_iter().rev().collect();
            out.push("#".into());
            HostFunctionRet::EchoArr(out).into_vm(th);
            r
        }
        HostFunctionArgs::EchoTwo(a, b, c) => {
            let r = format!("echo_two({a:?},{b:?},{c})");
            let mut out: Vec<String> = b.into_iter().rev().collect();
            out.push(format!("{}:{c}", a.iter().sum::<i64>()));
            HostFunctionRet::EchoTwo(out).into_vm(th);
            r
        }
        HostFunctionArgs::EchoArr2(a) => {
            let r = format!("echo_arr2({a:?})");
            let out: Vec<Vec<i64>> = a.into_iter().rev().collect();
            HostFunctionRet::EchoArr2(out).into_vm(th);
            r
        }
        HostFunctionArgs::EchoOpt(a) => {
            let r = format!("echo_opt({a:?})");
            let out = match a {
                Some(_) => None,
                None => Some(7),
            };
            HostFunctionRet::EchoOpt(out).into_vm(th);
            r
        }
        HostFunctionArgs::EchoRes(a) => {
            let r = format!("echo_res({a:?})");
            let out = match a {
                Ok(s) => Err(s.len() as i64),
                Err(n) => Ok(format!("e{n}")),
            };
            HostFunctionRet::EchoRes(out).into_vm(th);
            r
        }
        HostFunctionArgs::EchoRec(a) => {
            let r = format!("echo_rec({:?},{})", a.name, a.n);
            HostFunctionRet::EchoRec(HRec {
                name: format!("{}!", a.name),
                n: a.n.wrapping_add(1),
            })
            .into_vm(th);
            r
        }
        HostFunctionArgs::EchoEnum(a) => {
            let r = format!("echo_enum({})", render_henum(&a));
            let out = match a {
                HEnum::Aa => HEnum::Bb(1),
                HEnum::Bb(n) => HEnum::Cc(("b".into(), n)),
                HEnum::Cc(_) => HEnum::Aa,
            };
            HostFunctionRet::EchoEnum(out).into_vm(th);
            r
        }
    };
    s.observed.host_calls.push((ordinal, rendered));
}

/// One simulated run. `make_rt` creates a fresh runtime of the (already compiled) program.
pub fn run_once(make_rt: &dyn Fn() -> Runtime, src: Source, opts: &RunOptions) -> RunResult {
    verif::reset();
    verif::set_config(verif::Config {
        quarantine: opts.quarantine,
        selfcheck_every: opts.selfcheck_every,
    });
    let sim = Rc::new(RefCell::new(Sim::new(src, opts.progress_window_factor, opts.next_int_base)));
    sim.borrow_mut().record_string_steps = opts.record_string_steps;
    verif::install(Box::new(Ctl(sim.clone())));

    let mut rt = Some(make_rt());
    #[allow(unused_assignments)]
    let mut outcome: Option<Outcome> = None;
    let mut calls = 0u64;
    let mut idle_turns = 0u64;
    let mut reported_done = false;
    let mut reported_error: Option<String> = None;
    let mut post_calls_left = opts.post_done_calls;
    let mut live_after_full_gc = None;
    let mut peak_heap = 0usize;
    let mut peak_heap_threads: Vec<usize> = vec![];
    let mut stalled_calls = 0u32;

    'run: loop {
        let rtm = rt.as_mut().unwrap();
        let k = sim.borrow_mut().decide_budget(false);
        // never hand out more than what is left under the step cap (a budget of u32::MAX would
        // otherwise keep a non-terminating program inside one call for four billion instructions)
        let left = opts
            .step_cap
            .min(opts.drop_at_step)
            .saturating_sub(sim.borrow().step_seq)
            .max(1);
        let k = if (k as u64) > left { left as u32 } else { k };
        {
            let mut s = sim.borrow_mut();
            s.steps_in_call = 0;
            s.in_call = true;
            s.hash.u64(100 | (k as u64) << 8);
        }
        calls += 1;
        let r = catch_unwind(AssertUnwindSafe(|| rtm.run_n_steps(k)));
        let mut s = sim.borrow_mut();
        s.in_call = false;
        let status = match r {
            Ok(st) => st,
            Err(e) => {
                let text = panic_text(e);
                let v = fault_violation(&s.normalise(&text), "panic escaped run_n_steps");
                s.violate(&v.oracle.clone(), v.msg);
                outcome = Some(Outcome::Fault);
                break 'run;
            }
        };
        let executed = s.steps_in_call;
        s.hash.u64(101 | (executed << 8));
        if executed == 0 {
            idle_turns += 1;
        }

        // ---- status shadow model (C11) -----------------------------------------------------------
        if executed > k as u64 {
            s.violate(
                "status:budget-exceeded",
                format!("run_n_steps({k}) executed {executed} instructions"),
            );
        }
        if status.steps_consumed > k {
            s.violate(
                "status:budget-exceeded",
                format!("run_n_steps({k}) reported steps_consumed={}", status.steps_consumed),
            );
        }
        if status.steps_consumed as u64 != executed {
            s.count("probe_steps_consumed_differs_from_executed");
        }
        let infos = rtm.verif_threads();
        let heap_now: usize = infos.iter().map(|t| t.heap_size).sum();
        if heap_now > peak_heap {
            peak_heap = heap_now;
            peak_heap_threads = infos.iter().map(|t| t.heap_size).collect();
        }
        if infos.iter().any(|t| t.string_op_in_flight) {
            s.count("probe_slice_boundary_in_string_op");
        }
        if infos.iter().any(|t| t.phase != GcPhase::Idle) {
            s.count("probe_slice_boundary_mid_gc_cycle");
        }
        let main_info = infos.iter().find(|t| t.is_main).cloned();
        let any_parked = infos.iter().any(|t| t.pending_host_func.is_some());
        let main_parked = main_info
            .as_ref()
            .is_some_and(|m| m.pending_host_func.is_some());
        let kind_name = match &status.kind {
            RuntimeStatusKind::Done => "Done",
            RuntimeStatusKind::PendingHostFunc => "PendingHostFunc",
            RuntimeStatusKind::OutOfSteps => "OutOfSteps",
            RuntimeStatusKind::MainThreadError(_) => "MainThreadError",
        };
        s.hash.bytes(kind_name.as_bytes());
        match &status.kind {
            RuntimeStatusKind::Done => {
                if !s.main_stopped {
                    s.violate(
                        "status:done-before-main-finished",
                        "Done reported although the main program has not executed its final instruction".into(),
                    );
                }
                if let Some(e) = &s.main_failed.clone() {
                    s.violate(
                        "status:error-reported-as-done",
                        format!("Done reported although the main program failed with {e:?}"),
                    );
                }
            }
            RuntimeStatusKind::MainThreadError(e) => {
                let reported = e.to_string();
                match s.main_failed.clone() {
                    None => s.violate(
                        "status:spurious-error",
                        format!("MainThreadError reported although main has not failed: {reported}"),
                    ),
                    Some(actual) => {
                        if !reported.starts_with(&actual) {
                            s.violate(
                                "status:wrong-error-kind",
                                format!("main failed with {actual:?} but the runtime reported {reported:?}"),
                            );
                        }
                    }
                }
                if is_internal_error(&reported) {
                    s.violate(
                        "fault:internal-error",
                        format!("internal error kind reported: {}", reported.lines().next().unwrap_or("")),
                    );
                }
            }
            RuntimeStatusKind::PendingHostFunc => {
                if !any_parked {
                    s.violate(
                        "status:pending-without-parked-task",
                        "PendingHostFunc reported while no task is waiting for a host call".into(),
                    );
                }
            }
            RuntimeStatusKind::OutOfSteps => {
                if any_parked {
                    s.count("probe_out_of_steps_while_task_parked");
                }
            }
        }
        if s.main_stopped && !matches!(status.kind, RuntimeStatusKind::Done) {
            s.violate(
                "status:completion-not-reported",
                format!("the main program has finished but run_n_steps reported {kind_name}"),
            );
        }
        if let Some(failed_with) = s.main_failed.clone()
            && !matches!(status.kind, RuntimeStatusKind::MainThreadError(_))
        {
            s.violate(
                "status:error-not-reported",
                format!(
                    "the main program failed with {failed_with:?} but run_n_steps reported {kind_name}"
                ),
            );
        }
        if main_parked
            && !s.main_stopped
            && s.main_failed.is_none()
            && !matches!(status.kind, RuntimeStatusKind::PendingHostFunc)
        {
            s.violate(
                "status:main-host-call-not-reported",
                format!("main is waiting for a host call but run_n_steps reported {kind_name}"),
            );
        }
        if !s.violations.is_empty() {
            outcome = Some(if s.violations.iter().any(|v| v.oracle.starts_with("fault:")) {
                Outcome::Fault
            } else {
                Outcome::Done
            });
            break 'run;
        }
        // ---- end of run? ----------------------------------------------------------------------
        match &status.kind {
            RuntimeStatusKind::Done => {
                if !reported_done {
                    reported_done = true;
                    if main_info.as_ref().is_some_and(|m| m.stack_len > 0) {
                        let top = rtm.top();
                        let d = catch_unwind(AssertUnwindSafe(|| rtm.main().verif_digest(top)));
                        s.observed.final_top = d.ok();
                    }
                    // other tasks still around when main leaves
                    for t in infos.iter().filter(|t| !t.is_main) {
                        if t.pending_host_func.is_some() {
                            s.count("probe_main_done_with_task_parked");
                        } else if t.failed {
                            s.count("probe_main_done_with_task_failed");
                        } else if !t.done {
                            s.count("probe_main_done_with_task_alive");
                        }
                    }
                }
                if post_calls_left == 0 {
                    outcome = Some(Outcome::Done);
                    break 'run;
                }
                post_calls_left -= 1;
            }
            RuntimeStatusKind::MainThreadError(e) => {
                let text = e.to_string();
                if let Some(prev) = &reported_error
                    && *prev != text
                {
                    s.violate(
                        "status:error-changed",
                        format!("the reported error changed between calls: {prev:?} then {text:?}"),
                    );
                }
                reported_error = Some(text.clone());
                if post_calls_left == 0 {
                    outcome = Some(Outcome::Error(text));
                    break 'run;
                }
                post_calls_left -= 1;
            }
            _ => {}
        }
        // several consecutive calls with a positive budget in which nothing ran although nothing
        // waits for the host: no task will ever run again
        if k > 0 && executed == 0 && !any_parked && matches!(status.kind, RuntimeStatusKind::OutOfSteps) {
            stalled_calls += 1;
            if stalled_calls >= 3 {
                outcome = Some(Outcome::Stalled);
                break 'run;
            }
        } else if k > 0 {
            stalled_calls = 0;
        }
        // a lifecycle fault lands exactly after instruction `drop_at_step`, before the host gets
        // to answer anything at this boundary (so the dropped state does not depend on servicing)
        if s.step_seq >= opts.drop_at_step {
            outcome = Some(Outcome::Dropped);
            break 'run;
        }
        drop(s);
        // ---- service host calls ---------------------------------------------------------------
        let mut fault: Option<Violation> = None;
        for th in rtm.iter_threads_mut() {
            let Some(func) = th.get_pending_host_func() else {
                continue;
            };
            let raw = th.id();
            let is_main = th.verif_is_main();
            let ordinal = sim.borrow_mut().ordinal(raw, is_main);
            if ordinal == opts.abandon_thread {
                sim.borrow_mut().count("f9_host_call_abandoned_turn");
                continue;
            }
            if !sim.borrow_mut().decide_serve(ordinal, is_main) {
                continue;
            }
            {
                let mut s = sim.borrow_mut();
                s.hash.u64(102 | (ordinal as u64) << 8 | (func as u64) << 24);
                let step_seq = s.step_seq;
                if let Some(m) = s.threads.get_mut(&raw) {
                    m.parked = false;
                    // a task coming back from a host call is behind by design; restart its window
                    m.last_step_seq = step_seq;
                }
            }
            let r = catch_unwind(AssertUnwindSafe(|| service(&sim, th, func, ordinal)));
            if let Err(e) = r {
                fault = Some(fault_violation(&panic_text(e), "panic while servicing a host call"));
                break;
            }
        }
        if let Some(v) = fault {
            let msg = sim.borrow().normalise(&v.msg);
            sim.borrow_mut().violate(&v.oracle.clone(), msg);
            outcome = Some(Outcome::Fault);
            break 'run;
        }
        let s = sim.borrow();
        if s.step_seq >= opts.step_cap || calls >= 4 * opts.step_cap {
            outcome = Some(Outcome::Cap);
            break 'run;
        }
    }

    // ---- epilogue --------------------------------------------------------------------------------
    let mut thread_stats = vec![];
    if let Some(rtm) = rt.as_mut() {
        let infos = rtm.verif_threads();
        let mut s = sim.borrow_mut();
        for t in &infos {
            let ordinal = s.ordinal(t.thread, t.is_main);
            thread_stats.push(ThreadStat {
                ordinal,
                is_main: t.is_main,
                done: t.done,
                failed: t.failed,
                parked: t.pending_host_func.is_some(),
                heap_objects: t.heap_objects,
                heap_size: t.heap_size,
                allocs: t.counters.allocs,
                frees: t.counters.frees,
                cycles: t.counters.cycles,
                phase: phase_u8(t.phase),
                string_op_in_flight: t.string_op_in_flight,
            });
        }
        drop(s);
        if opts.completeness_probe
            && matches!(outcome, Some(Outcome::Done) | Some(Outcome::Error(_)) | Some(Outcome::Dropped))
        {
            let r = catch_unwind(AssertUnwindSafe(|| {
                rtm.verif_full_gc();
                rtm.verif_full_gc();
                rtm.verif_threads()
            }));
            match r {
                Ok(after) => {
                    let mut s = sim.borrow_mut();
                    let mut v: Vec<(u32, usize)> = after
                        .iter()
                        .map(|t| (s.ordinal(t.thread, t.is_main), t.heap_objects))
                        .collect();
                    v.sort();
                    live_after_full_gc = Some(v.into_iter().map(|(_, n)| n).collect());
                }
                Err(e) => {
                    let v = fault_violation(&panic_text(e), "panic during a quiescent full collection");
                    sim.borrow_mut().violate(&v.oracle.clone(), v.msg);
                    outcome = Some(Outcome::Fault);
                }
            }
        }
    }
    if matches!(outcome, Some(Outcome::Dropped)) {
        let mut s = sim.borrow_mut();
        for t in &thread_stats {
            match t.phase {
                0 => s.count("f8_drop_with_thread_idle"),
                1 => s.count("f8_drop_with_thread_marking"),
                _ => s.count("f8_drop_with_thread_sweeping"),
            }
            if t.string_op_in_flight {
                s.count("f8_drop_mid_string_op");
            }
            if t.parked {
                s.count("f8_drop_with_task_parked");
            }
        }
        if s.chans.values().any(|q| !q.is_empty()) {
            s.count("f8_drop_with_messages_queued");
        }
        if thread_stats.len() >= 2 {
            s.count("f8_drop_with_tasks_alive");
        }
    }
    // dropping the runtime is part of the run: double frees and accesses to reclaimed objects in
    // the destructors are reported by the hooks
    let r = catch_unwind(AssertUnwindSafe(|| drop(rt.take())));
    if let Err(e) = r {
        let v = fault_violation(&panic_text(e), "panic while dropping the runtime");
        sim.borrow_mut().violate(&v.oracle.clone(), v.msg);
        outcome = Some(Outcome::Fault);
    }
    for msg in verif::violations() {
        let msg = sim.borrow().normalise(&msg);
        let v = fault_violation(&msg, "hook");
        let v = if msg.starts_with("double-free") {
            Violation {
                oracle: "fault:double-free".into(),
                msg,
            }
        } else {
            v
        };
        sim.borrow_mut().violate(&v.oracle.clone(), v.msg);
    }
    abra_core::vm::verif_release_quarantine();
    verif::uninstall();

    let s = Rc::try_unwrap(sim).ok().expect("controller still installed").into_inner();
    let recent = s.render_recent();
    let unread: u64 = s.chans.values().map(|q| q.len() as u64).sum();
    let mut counters: BTreeMap<String, u64> =
        s.counters.iter().map(|(k, v)| (k.to_string(), *v)).collect();
    counters.insert("chan_writes".into(), s.chan_writes);
    counters.insert("chan_reads".into(), s.chan_reads);
    counters.insert("f1_calls".into(), calls);
    let phase_instr = s
        .phase_instr
        .iter()
        .map(|(p, d)| (*p, s.phase_instr_names.get(d).cloned().unwrap_or_default()))
        .collect();
    if s.violations.iter().any(|v| v.oracle.starts_with("fault:")) {
        outcome = Some(Outcome::Fault);
    }
    RunResult {
        outcome: outcome.unwrap_or(Outcome::Cap),
        observed: s.observed,
        violations: s.violations,
        trace: s.rec,
        hash: s.hash.0,
        steps: s.step_seq,
        calls,
        idle_turns,
        counters,
        phase_instr,
        recent,
        n_threads: s.next_ordinal,
        thread_stats,
        live_after_full_gc,
        unread_messages: unread,
        string_steps: s.string_steps,
        peak_heap: if s.heap_peak > 0 { s.heap_peak } else { peak_heap },
        peak_heap_threads: if s.heap_peak > 0 { s.heap_peak_threads } else { peak_heap_threads },
    }
}

pub fn is_internal_error(rendered: &str) -> bool {
    let first = rendered.lines().next().unwrap_or("");
    first.contains("expected type")
        || first.contains("internal error")
        || first.contains("ffi is not enabled")
        || first.contains("failed to load")
}

/// A host for harnesses that drive runtimes directly (several at once, no controller installed):
/// services every pending host call of `rt`, or none of them.
pub struct PlainHost {
    sim: Rc<RefCell<Sim>>,
}

impl Default for PlainHost {
    fn default() -> Self {
        Self::new()
    }
}

impl PlainHost {
    pub fn new() -> Self {
        PlainHost {
            sim: Rc::new(RefCell::new(Sim::new(
                Source::Trace(Trace::neutral(GcBase::Default, 4096)),
                4,
                100,
            ))),
        }
    }

    pub fn serve_all(&self, rt: &mut Runtime) -> Result<u32, String> {
        let mut served = 0;
        for th in rt.iter_threads_mut() {
            let Some(func) = th.get_pending_host_func() else {
                continue;
            };
            let r = catch_unwind(AssertUnwindSafe(|| service(&self.sim, th, func, 0)));
            if let Err(e) = r {
                return Err(panic_text(e));
            }
            served += 1;
        }
        // nothing is judged from these logs; keep them from growing
        let mut s = self.sim.borrow_mut();
        s.observed = Observed::default();
        Ok(served)
    }
}
