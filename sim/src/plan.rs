//! What a cell does for each property: which workload family it draws from and which schedules
//! (sampled personalities and enumerated sweeps) it runs the workload under.

use crate::embed::*;
use crate::rng::Rng;
use crate::workload::{self, Workload};
use serde::{Deserialize, Serialize};

#[derive(Clone, Copy, Debug, PartialEq, Eq)]
pub enum Tier {
    Quick,
    Thorough,
}

impl Tier {
    pub fn name(self) -> &'static str {
        match self {
            Tier::Quick => "quick",
            Tier::Thorough => "thorough",
        }
    }
}

/// how a run is evaluated
#[derive(Serialize, Deserialize, Clone, Debug, Default, PartialEq)]
pub enum Mode {
    /// one run, judged against the model and the reference run
    #[default]
    Normal,
    /// the same create / run / drop life is executed six times; process memory must not grow
    LeakRepeat,
    /// several runtimes created, run, serviced and dropped in an interleaved history drawn from
    /// `seed` (production pacing, no controller); the history is executed six times
    LifeHistory { seed: u64, ops: u32 },
    /// after the run (or at its drop point) two quiescent full collections must leave exactly
    /// what they leave after the collector-off run to the same point
    Completeness,
    /// the program is run with its size parameter at `n` and at `4n`; peak memory must not scale
    Bounded { n: i64 },
}

#[derive(Serialize, Deserialize, Clone, Debug)]
pub struct RunSpec {
    #[serde(default)]
    pub mode: Mode,
    pub label: String,
    pub personality: Personality,
    pub opts: RunOptions,
    /// the step cap is `fault window + liveness bound`: hitting it is a liveness violation
    pub liveness_due: bool,
}

pub fn reference_step_cap(_prop: &str, _tier: Tier) -> u64 {
    1_500_000
}

/// which schedule dimensions a property's runs exercise
#[derive(Clone, Copy)]
struct Flavor {
    /// collector pacing faults F4-F7 (otherwise the production heuristic, untouched)
    gc_stress: bool,
    /// host stalls F2
    stalls: bool,
    /// stall only main's host calls
    stall_main_only: bool,
    selfcheck_every: u32,
}

fn sample_budget(rng: &mut Rng, has_tasks: bool) -> Budget {
    let big = if has_tasks { 4096 } else { u32::MAX };
    match rng.below(10) {
        0 | 1 => Budget::Const(1),
        2 => Budget::Const(*rng.pick(&[2, 3, 5, 7])),
        3 => Budget::Const(*rng.pick(&[64, 100])),
        4 => Budget::Const(4096),
        5 => Budget::Const(big),
        6 => Budget::Alt(1, *rng.pick(&[2, 3, 64])),
        7 => Budget::Small(*rng.pick(&[3, 8, 32])),
        _ => Budget::Log {
            max: if has_tasks { 4096 } else { 1 << 20 },
            zero_pct: *rng.pick(&[0, 5, 20]),
        },
    }
}

fn sample_gc(rng: &mut Rng, stress: bool) -> GcTemplate {
    if !stress {
        return GcTemplate::Default;
    }
    match rng.below(14) {
        0 => GcTemplate::Default,
        1 => GcTemplate::FullEveryStep,
        2 | 3 => GcTemplate::OneInc,
        4 => GcTemplate::StarveThenFinish {
            starve: *rng.pick(&[3, 10, 40]),
        },
        5 | 6 => GcTemplate::RandomSparse {
            p: *rng.pick(&[8, 30, 100]),
        },
        7 => GcTemplate::RandomDense,
        8 | 9 | 10 => GcTemplate::Targeted {
            p: *rng.pick(&[30, 100]),
        },
        _ => GcTemplate::DefaultPlusForced {
            p: *rng.pick(&[3, 10, 50]),
        },
    }
}

fn sampled(rng: &mut Rng, w: &Workload, reference: &RunResult, f: Flavor, label: &str) -> RunSpec {
    let tasks = reference.n_threads.max(1) as u64;
    let ref_steps = reference.steps.max(50);
    let window = match rng.below(4) {
        0 => u64::MAX,
        1 => ref_steps / 2,
        2 => ref_steps,
        _ => ref_steps * 2,
    };
    // generous on purpose: twenty times the reference work per task, plus what busy-waiting
    // tasks can burn while another task's host call waits for the end of a slice
    let host_calls = reference.observed.host_calls.len() as u64;
    let bound = 20 * ref_steps * (tasks + 1) + 10_000 + 4 * (host_calls + 4) * w.neutral_budget().min(65_536) as u64;
    let (step_cap, liveness_due) = if window == u64::MAX {
        (60 * ref_steps * (tasks + 1) + 200_000, false)
    } else {
        (window + bound, true)
    };
    let mut gc = sample_gc(rng, f.gc_stress);
    if ref_steps > 40_000 && gc == GcTemplate::FullEveryStep {
        // a complete cycle before every instruction costs (instructions x heap size); on long
        // runs that is minutes per run, so long runs get the targeted template instead
        gc = GcTemplate::Targeted { p: 30 };
    }
    let personality = Personality {
        budget: sample_budget(rng, w.has_tasks),
        stall_pct: if f.stalls { *rng.pick(&[0u8, 10, 50, 90]) } else { 0 },
        stall_max: *rng.pick(&[1, 5, 50]),
        stall_main_only: f.stall_main_only,
        gc,
        fault_window: window,
        neutral: w.neutral_budget(),
    };
    RunSpec {
        mode: Mode::Normal,
        label: label.to_string(),
        personality,
        opts: RunOptions {
            step_cap,
            selfcheck_every: f.selfcheck_every,
            quarantine: true,
            ..Default::default()
        },
        liveness_due,
    }
}

fn fixed(mut personality: Personality, reference: &RunResult, label: &str, selfcheck_every: u32) -> RunSpec {
    let tasks = reference.n_threads.max(1) as u64;
    if reference.steps > 40_000 && personality.gc == GcTemplate::FullEveryStep {
        personality.gc = GcTemplate::Targeted { p: 30 };
    }
    RunSpec {
        mode: Mode::Normal,
        label: label.to_string(),
        personality,
        opts: RunOptions {
            step_cap: 60 * reference.steps.max(50) * (tasks + 1) + 200_000,
            selfcheck_every,
            quarantine: true,
            ..Default::default()
        },
        liveness_due: false,
    }
}

fn base(budget: Budget, gc: GcTemplate) -> Personality {
    Personality {
        budget,
        stall_pct: 0,
        stall_max: 0,
        stall_main_only: false,
        gc,
        fault_window: u64::MAX,
        neutral: 4096,
    }
}

/// the workload of cell number `index` of a property's check
pub fn workload(prop: &str, tier: Tier, rng: &mut Rng, index: u64) -> Workload {
    let big = tier == Tier::Thorough;
    match prop {
        "C26" => workload::arr::generate(rng, if big { 40 } else { 25 }),
        "C17" => {
            // every fourth cell is small enough for the exhaustive sweeps
            if index % 4 == 0 {
                workload::strs::generate(rng, 12, 4, false)
            } else {
                workload::strs::generate(rng, if big { 40 } else { 24 }, 10, true)
            }
        }
        "C06" => match index % 10 {
            // small programs for the exhaustive cycle-start sweep
            0 | 1 => workload::gc::generate(rng, true),
            2..=5 => workload::gc::generate(rng, false),
            6 => workload::arr::generate(rng, 30),
            7 => workload::strs::generate(rng, 24, 8, true),
            // values in closures and in channels, collectors of several tasks
            8 => workload::conc::generate(rng, workload::conc::ALL, false),
            _ => workload::cap::generate(rng),
        },
        "C11" => match index % 4 {
            0 => workload::conc::generate(rng, &[workload::conc::Shape::MainLeavesEarly, workload::conc::Shape::FailingTask, workload::conc::Shape::RequestResponse], false),
            _ => workload::status::generate(rng, true),
        },
        "C10" => match index % 6 {
            // part 1: programs without tasks
            0 => workload::strs::generate(rng, 10, 3, false),
            1 => workload::arr::generate(rng, 12),
            2 | 3 => workload::status::generate(rng, false),
            // part 2: tasks communicate through channels only, main is the only one printing
            _ => workload::conc::generate(rng, workload::conc::DETERMINATE, true),
        },
        "C01" => match index % 8 {
            0 => workload::conc::generate(rng, workload::conc::ALL, false),
            1 => workload::cap::generate(rng),
            2 => workload::gc::generate(rng, false),
            3 => workload::arr::generate(rng, 30),
            4 => workload::strs::generate(rng, 24, 8, true),
            5 => workload::status::generate(rng, true),
            6 => workload::conc::generate(rng, workload::conc::ALL, false),
            _ => workload::gc::generate(rng, true),
        },
        "C07" => match index % 6 {
            0 | 1 => workload::bounded::generate(rng),
            2 => workload::conc::generate(rng, workload::conc::ALL, false),
            3 => workload::gc::generate(rng, false),
            4 => workload::cap::generate(rng),
            _ => workload::status::generate(rng, true),
        },
        "C08" => workload::cap::generate(rng),
        "C09" => workload::conc::generate(rng, workload::conc::ALL, false),
        _ => workload::arr::generate(rng, 20),
    }
}

/// the schedules a cell runs its workload under, and which parts of that are exhaustive
pub fn runs(
    prop: &str,
    tier: Tier,
    rng: &mut Rng,
    w: &Workload,
    reference: &RunResult,
) -> (Vec<RunSpec>, Vec<String>) {
    let mut specs = vec![];
    let mut exhaustive = vec![];
    let n_sampled = match tier {
        Tier::Quick => 16,
        Tier::Thorough => 48,
    };
    let neutral = w.neutral_budget();
    match prop {
        "C26" => {
            let f = Flavor {
                gc_stress: true,
                stalls: true,
                stall_main_only: false,
                selfcheck_every: 1,
            };
            // the three systematic pacings first, then sampled ones
            specs.push(fixed(base(Budget::Const(1), GcTemplate::OneInc), reference, "one-increment-per-instruction", 1));
            specs.push(fixed(base(Budget::Const(neutral), GcTemplate::FullEveryStep), reference, "full-cycle-every-instruction", 1));
            specs.push(fixed(base(Budget::Const(7), GcTemplate::Default), reference, "production-pacing", 1));
            for _ in 0..n_sampled {
                specs.push(sampled(rng, w, reference, f, "sampled"));
            }
        }
        "C17" => {
            let f = Flavor {
                gc_stress: true,
                stalls: true,
                stall_main_only: false,
                selfcheck_every: 1,
            };
            let small = reference.steps <= 5_000 && !w.has_tasks;
            if small {
                // every constant budget up to the longest operand + 3 (operands are <= 12 bytes
                // + multibyte expansion; 48 covers them), collector untouched
                for k in 1..=48u32 {
                    specs.push(fixed(base(Budget::Const(k), GcTemplate::Default), reference, "every-constant-budget", 1));
                }
                exhaustive.push("constant budgets 1..=48".to_string());
                // a cycle started at every step of every string instruction, one increment per
                // instruction from there on
                for at in &reference.string_steps {
                    specs.push(fixed(
                        base(
                            Budget::Const(neutral),
                            GcTemplate::SingleCycle {
                                start_at: *at,
                                mark: 1,
                                sweep: 1,
                            },
                        ),
                        reference,
                        "cycle-start-at-every-string-step",
                        1,
                    ));
                    // and the production shape: forced start there, then the pacing code itself
                    // (the whole cycle completes while the instruction is still in flight)
                    specs.push(fixed(
                        base(Budget::Const(neutral), GcTemplate::SingleStartThenDefault { start_at: *at }),
                        reference,
                        "cycle-start-at-every-string-step",
                        1,
                    ));
                }
                exhaustive.push(format!(
                    "single collection cycle started at each of the {} steps that execute a string instruction (two increment shapes)",
                    reference.string_steps.len()
                ));
            } else {
                specs.push(fixed(base(Budget::Const(1), GcTemplate::OneInc), reference, "one-increment-per-instruction", 1));
                specs.push(fixed(base(Budget::Const(3), GcTemplate::FullEveryStep), reference, "full-cycle-every-instruction", 1));
            }
            for _ in 0..n_sampled {
                specs.push(sampled(rng, w, reference, f, "sampled"));
            }
        }
        "C06" => {
            let f = Flavor {
                gc_stress: true,
                stalls: w.has_tasks,
                stall_main_only: false,
                selfcheck_every: 1,
            };
            let small = reference.steps <= 2_600 && !w.has_tasks && w.family == "gc";
            if small {
                // exhaustive over the start point of a single cycle, crossed with five increment
                // shapes
                for t in 0..reference.steps {
                    for (mark, sweep) in [(1, 1), (u32::MAX, 1), (1, u32::MAX), (u32::MAX, u32::MAX)] {
                        specs.push(fixed(
                            base(
                                Budget::Const(neutral),
                                GcTemplate::SingleCycle {
                                    start_at: t,
                                    mark,
                                    sweep,
                                },
                            ),
                            reference,
                            "single-cycle-at-every-start-point",
                            1,
                        ));
                    }
                    // fifth shape: forced start, then the production pacing code itself (one
                    // process_gray / sweep call with its own byte budget before each instruction)
                    specs.push(fixed(
                        base(Budget::Const(neutral), GcTemplate::SingleStartThenDefault { start_at: t }),
                        reference,
                        "single-cycle-at-every-start-point",
                        1,
                    ));
                }
                exhaustive.push(format!(
                    "single collection cycle at every start point of the {} instructions x 5 increment shapes",
                    reference.steps
                ));
            }
            specs.push(fixed(base(Budget::Const(1), GcTemplate::OneInc), reference, "one-increment-per-instruction", 1));
            specs.push(fixed(base(Budget::Const(neutral), GcTemplate::FullEveryStep), reference, "full-cycle-every-instruction", 1));
            specs.push(fixed(base(Budget::Const(100), GcTemplate::Default), reference, "production-pacing", 1));
            for _ in 0..n_sampled {
                specs.push(sampled(rng, w, reference, f, "sampled"));
            }
        }
        "C10" => {
            // the collector runs under its production heuristic in every C10 run, so that a
            // difference is attributable to slicing and host-call delay alone
            let f = Flavor {
                gc_stress: false,
                stalls: true,
                // for programs with tasks only main's host calls are delayed: that is the delay
                // slicing itself imposes; stalls inside the other tasks belong to C09
                stall_main_only: w.has_tasks,
                selfcheck_every: 0,
            };
            if !w.has_tasks && reference.steps <= 400 {
                for k in 1..=64u32 {
                    specs.push(fixed(base(Budget::Const(k), GcTemplate::Default), reference, "every-constant-budget", 0));
                }
                exhaustive.push("constant budgets 1..=64".to_string());
                let t = reference.steps.max(1);
                let stride = (t / 24).max(1);
                let mut n = 0;
                let mut at = 1;
                while at < t {
                    for k1 in [1u32, 2, 3, 7, 64] {
                        for k2 in [1u32, 5, u32::MAX] {
                            specs.push(fixed(
                                base(Budget::TwoPhase { k1, at, k2 }, GcTemplate::Default),
                                reference,
                                "two-phase-budget-grid",
                                0,
                            ));
                            n += 1;
                        }
                    }
                    at += stride;
                }
                exhaustive.push(format!("two-phase budget grid ({n} points: k1 in {{1,2,3,7,64}} x switch point every {stride} instructions x k2 in {{1,5,MAX}})"));
            } else {
                for k in [1u32, 2, 3, 5, 7, 64, 100] {
                    specs.push(fixed(base(Budget::Const(k), GcTemplate::Default), reference, "constant-budget", 0));
                }
            }
            for _ in 0..n_sampled {
                specs.push(sampled(rng, w, reference, f, "sampled"));
            }
        }
        "C07" => {
            let n_each = match tier {
                Tier::Quick => 4,
                Tier::Thorough => 10,
            };
            if w.family == "bounded" {
                // boundedness under the real pacing heuristic, crossed with slicing and host delay
                let n = match tier {
                    Tier::Quick => 150,
                    Tier::Thorough => 500,
                };
                for _ in 0..n_each {
                    // constant budgets and no stalls: the decision trace (which the harness
                    // records) then has constant size, so process memory measures the VM alone
                    let personality = Personality {
                        budget: Budget::Const(*rng.pick(&[1, 7, 64, 100, 1000])),
                        stall_pct: 0,
                        stall_max: 0,
                        stall_main_only: false,
                        gc: GcTemplate::Default,
                        fault_window: u64::MAX,
                        neutral: w.neutral_budget(),
                    };
                    let mut sp = fixed(personality, reference, "bounded-heap-at-n-and-4n", 0);
                    sp.mode = Mode::Bounded { n };
                    sp.opts.quarantine = false;
                    sp.opts.step_cap = 400 * reference.steps.max(1_000);
                    specs.push(sp);
                }
                exhaustive.push(format!("size parameter {n} vs {}", 4 * n));
            } else {
                let f = Flavor {
                    gc_stress: true,
                    stalls: true,
                    stall_main_only: false,
                    selfcheck_every: 0,
                };
                // (a) a runtime dropped at an arbitrary instant frees everything
                for i in 0..n_each * 2 {
                    let mut sp = sampled(rng, w, reference, f, "life-dropped-at-arbitrary-instant");
                    sp.mode = Mode::LeakRepeat;
                    sp.liveness_due = false;
                    sp.opts.quarantine = false;
                    sp.personality.fault_window = u64::MAX;
                    sp.opts.drop_at_step = if i % 4 == 3 {
                        u64::MAX
                    } else {
                        rng.below(reference.steps + reference.steps / 4 + 2)
                    };
                    if w.has_tasks && rng.chance(1, 4) {
                        // a task's host call is never answered, then the runtime is dropped
                        sp.opts.abandon_thread = 1;
                    }
                    specs.push(sp);
                }
                for _ in 0..2 {
                    let mut sp = fixed(base(Budget::Const(100), GcTemplate::Default), reference, "interleaved-lives-of-several-runtimes", 0);
                    sp.mode = Mode::LifeHistory {
                        seed: rng.next(),
                        ops: 40,
                    };
                    sp.opts.quarantine = false;
                    specs.push(sp);
                }
                // (b) once faults stop, everything unreachable is reclaimed
                for _ in 0..n_each {
                    let mut sp = sampled(rng, w, reference, f, "completeness-after-faults");
                    sp.mode = Mode::Completeness;
                    sp.opts.quarantine = false;
                    if !w.has_tasks && rng.chance(2, 3) {
                        sp.opts.drop_at_step = rng.below(reference.steps + 1);
                    }
                    specs.push(sp);
                }
            }
        }
        "C11" => {
            let f = Flavor {
                gc_stress: true,
                stalls: true,
                stall_main_only: false,
                selfcheck_every: 4,
            };
            for k in [1u32, 2, 3, 64] {
                let mut sp = fixed(base(Budget::Const(k), GcTemplate::Default), reference, "constant-budget", 0);
                sp.opts.post_done_calls = 3;
                specs.push(sp);
            }
            for _ in 0..n_sampled {
                let mut sp = sampled(rng, w, reference, f, "sampled");
                // keep calling after completion / failure: the report must not change
                sp.opts.post_done_calls = *rng.pick(&[0, 1, 3]);
                specs.push(sp);
            }
        }
        _ => {
            // C01, C08, C09: every fault kind at once
            let f = Flavor {
                gc_stress: true,
                stalls: true,
                stall_main_only: false,
                selfcheck_every: 1,
            };
            specs.push(fixed(base(Budget::Const(1), GcTemplate::OneInc), reference, "one-increment-per-instruction", 1));
            specs.push(fixed(base(Budget::Const(3), GcTemplate::FullEveryStep), reference, "full-cycle-every-instruction", 1));
            for _ in 0..n_sampled {
                specs.push(sampled(rng, w, reference, f, "sampled"));
            }
            if w.has_tasks {
                // cycles that open exactly at channel reads and stay open across them (appended,
                // so the runs above are what they were before this pacing existed)
                let n = match tier {
                    Tier::Quick => 3,
                    Tier::Thorough => 8,
                };
                for _ in 0..n {
                    let k = *rng.pick(&[1u32, 7, 64, neutral]);
                    let p = *rng.pick(&[1u32, 2, 2, 3]);
                    specs.push(fixed(base(Budget::Const(k), GcTemplate::CycleAtRead { p }), reference, "cycle-opens-at-channel-read", 1));
                }
            }
        }
    }
    (specs, exhaustive)
}

// ------------------------------------------------------------------------------------------------
// per-property check parameters used by the driver

pub fn n_cells(prop: &str, tier: Tier) -> u64 {
    // sized so that a quick check takes 10-40 s and a thorough one 5-15 min on 16 cores
    match (prop, tier) {
        // the first 192 cells of C01 / C10 run the repository corpus (x4 in the thorough tier)
        ("C01", Tier::Quick) => 192 + 480,
        ("C01", Tier::Thorough) => 192 * 4 + 9000,
        ("C10", Tier::Quick) => 192 + 480,
        ("C10", Tier::Thorough) => 192 * 4 + 9000,
        ("C06", Tier::Quick) => 200,
        ("C06", Tier::Thorough) => 3000,
        ("C07", Tier::Quick) => 240,
        ("C07", Tier::Thorough) => 3000,
        ("C08", Tier::Quick) => 500,
        ("C08", Tier::Thorough) => 9000,
        ("C09", Tier::Quick) => 500,
        ("C09", Tier::Thorough) => 6000,
        ("C11", Tier::Quick) => 500,
        ("C11", Tier::Thorough) => 9000,
        ("C17", Tier::Quick) => 320,
        ("C17", Tier::Thorough) => 6000,
        ("C26", Tier::Quick) => 400,
        ("C26", Tier::Thorough) => 6000,
        (_, Tier::Quick) => 200,
        (_, Tier::Thorough) => 3000,
    }
}

pub fn n_determinism_cells(_prop: &str, tier: Tier) -> u64 {
    match tier {
        Tier::Quick => 6,
        Tier::Thorough => 48,
    }
}

pub fn wall_cap(_prop: &str, tier: Tier) -> std::time::Duration {
    std::time::Duration::from_secs(match tier {
        Tier::Quick => 240,
        Tier::Thorough => 1500,
    })
}

pub fn max_rejected_pct(_prop: &str) -> u64 {
    2
}

/// extra per-cell inputs the driver prepares before fanning out (e.g. corpus programs)
#[derive(Default)]
pub struct ExtraInputs {
    pub per_cell: Vec<Vec<String>>,
}

impl ExtraInputs {
    pub fn args_for(&self, index: u64) -> Vec<String> {
        self.per_cell.get(index as usize).cloned().unwrap_or_default()
    }
}

pub fn prepare_inputs(prop: &str, tier: Tier) -> ExtraInputs {
    if prop != "C01" && prop != "C10" {
        return ExtraInputs::default();
    }
    // the repository's own programs, from the current tree; in the thorough tier each of them is
    // given to four cells (four different schedule batches)
    let programs = crate::corpus::extract_all();
    let dir = std::path::Path::new("/verif/sim/target/corpus");
    let _ = std::fs::create_dir_all(dir);
    let copies = if tier == Tier::Thorough { 4 } else { 1 };
    let mut per_cell = vec![];
    for _ in 0..copies {
        for (i, c) in programs.iter().enumerate() {
            let path = dir.join(format!("{i}.json"));
            let _ = std::fs::write(&path, serde_json::to_string(c).unwrap());
            per_cell.push(vec!["--corpus".to_string(), path.to_string_lossy().to_string()]);
        }
    }
    ExtraInputs { per_cell }
}

/// reach probes that must fire at least once in a check, or the check cannot claim to have
/// exercised its property (exit 2, never a violation)
pub fn required_probes(prop: &str, _tier: Tier) -> &'static [&'static str] {
    match prop {
        "C26" => &[
            "probe_heap_write_during_marking",
            "probe_array_pop_during_marking",
            "probe_alloc_during_marking",
            "probe_alloc_during_sweeping",
            "gc_objects_freed",
            "f4_forced_cycle_start",
        ],
        "C06" => &[
            "probe_heap_write_during_marking",
            "probe_array_pop_during_marking",
            "probe_barrier_greyed_child",
            "probe_rescan_found_white_root",
            "probe_alloc_during_marking",
            "probe_alloc_during_sweeping",
            "probe_cycle_start_in_string_op",
            "gc_objects_freed",
        ],
        "C07" => &[
            "f8_drop_with_thread_marking",
            "f8_drop_with_thread_sweeping",
            "f8_drop_mid_string_op",
            "f8_drop_with_task_parked",
            "f8_drop_with_messages_queued",
            "f8_drop_with_tasks_alive",
            "f9_host_call_abandoned_turn",
            "f8_life_history_ops",
            "gc_objects_freed",
        ],
        "C08" => &["ev_spawn", "f2_defer", "gc_objects_freed", "probe_two_tasks_parked"],
        "C09" => &[
            "ev_spawn",
            "f2_defer",
            "probe_blocked_read",
            "probe_two_tasks_parked",
            "f11_task_failed",
            "probe_main_done_with_task_alive",
            "gc_objects_freed",
        ],
        "C10" => &["f1_budget_zero", "f2_defer", "probe_slice_boundary_in_string_op"],
        "C11" => &[
            "f2_defer",
            "f11_task_failed",
            "probe_main_done_with_task_alive",
            "probe_main_done_with_task_parked",
            "probe_main_done_with_task_failed",
            "probe_two_tasks_parked",
        ],
        "C01" => &["ev_spawn", "f2_defer", "f4_forced_cycle_start", "gc_objects_freed", "f11_task_failed"],
        "C17" => &[
            "probe_cycle_start_in_string_op",
            "probe_slice_boundary_in_string_op",
            "probe_string_op_step_during_marking",
            "probe_string_op_step_during_sweeping",
            "gc_objects_freed",
        ],
        _ => &[],
    }
}

pub fn level(prop: &str) -> &'static str {
    match prop {
        "C06" | "C17" => "fault_enumeration",
        _ => "exploration",
    }
}

pub fn rule(prop: &str) -> String {
    let common = "One evaluation = one simulated run: a fresh Runtime of a generated (or corpus) program driven to completion by the simulated embedder under one decision trace (step budgets, host-call deferrals, collector start / mark / sweep increments), all drawn from VERIF_SEED. distinct_nontrivial counts distinct 64-bit hashes of the normalised event stream (every instruction with thread, pc and collector phase; spawns, channel operations, host calls, collector phase changes, embedder calls and their results) among the runs that are non-trivial for this property: ";
    let specific = match prop {
        "C26" | "C06" => "the collector was in its marking or sweeping phase while at least one program instruction executed, and it reclaimed at least one object.",
        "C17" => "a collection phase was active while a resumable string instruction was mid-way, or a run_n_steps call ended while one was in flight.",
        "C07" => "the runtime was dropped before the program completed, or a completeness / boundedness comparison was made (every C07 run is one of these).",
        "C10" => "execution was cut into at least three run_n_steps calls.",
        "C11" => "at least three run_n_steps calls were made or at least one host call was deferred.",
        "C08" | "C09" => "a task was spawned and a host call was deferred, a collector phase overlapped execution, or execution was cut into at least three calls.",
        _ => "a collector phase overlapped execution, a host call was deferred, or execution was cut into at least three calls.",
    };
    format!("{common}{specific}")
}

pub fn assumptions(prop: &str) -> Vec<String> {
    let mut v = vec![
        "the abra_verif hooks (collector controller seam, quarantine side table, independent reachability trace, event stream) are trusted; with the feature off the crate is unchanged".to_string(),
        "simulation samples schedules and programs: a clean batch is evidence, not proof; the enumerated parts are exhaustive only within their stated bounds".to_string(),
        "abra_core is built without the ffi feature, so everything runs on one OS thread and the simulator is the only scheduler; FFI threads are outside every listed property".to_string(),
        "bytecode layout depends on process-global id counters, so each cell compiles exactly one program as its first action; replay files are re-executed the same way".to_string(),
    ];
    match prop {
        "C26" | "C17" => v.push("expected observations come from a Rust model inside the generator (Vec / byte-string semantics); programs render values with their own helper functions, not with the prelude's ToString for containers".to_string()),
        _ => {}
    }
    v
}
