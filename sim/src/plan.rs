//! What a cell does for each property: which workload family it draws from and which schedules
//! (sampled personalities and enumerated sweeps) it runs the workload under.

use crate::embed::*;
use crate::rng::Rng;
use crate::workload::{self, Workload};
use serde::{Deserialize, Serialize};

#[derive(Clone, Copy, Debug, PartialEq, Eq)]
pub enum Tier {
    Quick,
    Thorough,
}

impl Tier {
    pub fn name(self) -> &'static str {
        match self {
            Tier::Quick => "quick",
            Tier::Thorough => "thorough",
        }
    }
}

#[derive(Serialize, Deserialize, Clone, Debug)]
pub struct RunSpec {
    pub label: String,
    pub personality: Personality,
    pub opts: RunOptions,
    /// the step cap is `fault window + liveness bound`: hitting it is a liveness violation
    pub liveness_due: bool,
}

pub fn reference_step_cap(_prop: &str, _tier: Tier) -> u64 {
    1_500_000
}

/// which schedule dimensions a property's runs exercise
#[derive(Clone, Copy)]
struct Flavor {
    /// collector pacing faults F4-F7 (otherwise the production heuristic, untouched)
    gc_stress: bool,
    /// host stalls F2
    stalls: bool,
    /// stall only main's host calls
    stall_main_only: bool,
    selfcheck_every: u32,
}

fn sample_budget(rng: &mut Rng, has_tasks: bool) -> Budget {
    let big = if has_tasks { 4096 } else { u32::MAX };
    match rng.below(10) {
        0 | 1 => Budget::Const(1),
        2 => Budget::Const(*rng.pick(&[2, 3, 5, 7])),
        3 => Budget::Const(*rng.pick(&[64, 100])),
        4 => Budget::Const(4096),
        5 => Budget::Const(big),
        6 => Budget::Alt(1, *rng.pick(&[2, 3, 64])),
        7 => Budget::Small(*rng.pick(&[3, 8, 32])),
        _ => Budget::Log {
            max: if has_tasks { 4096 } else { 1 << 20 },
            zero_pct: *rng.pick(&[0, 5, 20]),
        },
    }
}

fn sample_gc(rng: &mut Rng, stress: bool) -> GcTemplate {
    if !stress {
        return GcTemplate::Default;
    }
    match rng.below(12) {
        0 => GcTemplate::Default,
        1 => GcTemplate::FullEveryStep,
        2 | 3 => GcTemplate::OneInc,
        4 => GcTemplate::StarveThenFinish {
            starve: *rng.pick(&[3, 10, 40]),
        },
        5 | 6 => GcTemplate::RandomSparse {
            p: *rng.pick(&[8, 30, 100]),
        },
        7 => GcTemplate::RandomDense,
        8 | 9 | 10 => GcTemplate::Targeted {
            p: *rng.pick(&[30, 100]),
        },
        _ => GcTemplate::DefaultPlusForced {
            p: *rng.pick(&[10, 50]),
        },
    }
}

fn sampled(rng: &mut Rng, w: &Workload, reference: &RunResult, f: Flavor, label: &str) -> RunSpec {
    let tasks = reference.n_threads.max(1) as u64;
    let ref_steps = reference.steps.max(50);
    let window = match rng.below(4) {
        0 => u64::MAX,
        1 => ref_steps / 2,
        2 => ref_steps,
        _ => ref_steps * 2,
    };
    let bound = 20 * ref_steps * (tasks + 1) + 10_000;
    let (step_cap, liveness_due) = if window == u64::MAX {
        (60 * ref_steps * (tasks + 1) + 200_000, false)
    } else {
        (window + bound, true)
    };
    let personality = Personality {
        budget: sample_budget(rng, w.has_tasks),
        stall_pct: if f.stalls { *rng.pick(&[0u8, 10, 50, 90]) } else { 0 },
        stall_max: *rng.pick(&[1, 5, 50]),
        stall_main_only: f.stall_main_only,
        gc: sample_gc(rng, f.gc_stress),
        fault_window: window,
    };
    RunSpec {
        label: label.to_string(),
        personality,
        opts: RunOptions {
            step_cap,
            selfcheck_every: f.selfcheck_every,
            quarantine: true,
            ..Default::default()
        },
        liveness_due,
    }
}

fn fixed(personality: Personality, reference: &RunResult, label: &str, selfcheck_every: u32) -> RunSpec {
    let tasks = reference.n_threads.max(1) as u64;
    RunSpec {
        label: label.to_string(),
        personality,
        opts: RunOptions {
            step_cap: 60 * reference.steps.max(50) * (tasks + 1) + 200_000,
            selfcheck_every,
            quarantine: true,
            ..Default::default()
        },
        liveness_due: false,
    }
}

fn base(budget: Budget, gc: GcTemplate) -> Personality {
    Personality {
        budget,
        stall_pct: 0,
        stall_max: 0,
        stall_main_only: false,
        gc,
        fault_window: u64::MAX,
    }
}

/// the workload of cell number `index` of a property's check
pub fn workload(prop: &str, tier: Tier, rng: &mut Rng, index: u64) -> Workload {
    let big = tier == Tier::Thorough;
    match prop {
        "C26" => workload::arr::generate(rng, if big { 40 } else { 25 }),
        "C17" => {
            // every fourth cell is small enough for the exhaustive sweeps
            if index % 4 == 0 {
                workload::strs::generate(rng, 12, 4, false)
            } else {
                workload::strs::generate(rng, if big { 40 } else { 24 }, 10, true)
            }
        }
        _ => workload::arr::generate(rng, 20),
    }
}

/// the schedules a cell runs its workload under, and which parts of that are exhaustive
pub fn runs(
    prop: &str,
    tier: Tier,
    rng: &mut Rng,
    w: &Workload,
    reference: &RunResult,
) -> (Vec<RunSpec>, Vec<String>) {
    let mut specs = vec![];
    let mut exhaustive = vec![];
    let n_sampled = match tier {
        Tier::Quick => 16,
        Tier::Thorough => 48,
    };
    let neutral = w.neutral_budget();
    match prop {
        "C26" => {
            let f = Flavor {
                gc_stress: true,
                stalls: true,
                stall_main_only: false,
                selfcheck_every: 1,
            };
            // the three systematic pacings first, then sampled ones
            specs.push(fixed(base(Budget::Const(1), GcTemplate::OneInc), reference, "one-increment-per-instruction", 1));
            specs.push(fixed(base(Budget::Const(neutral), GcTemplate::FullEveryStep), reference, "full-cycle-every-instruction", 1));
            specs.push(fixed(base(Budget::Const(7), GcTemplate::Default), reference, "production-pacing", 1));
            for _ in 0..n_sampled {
                specs.push(sampled(rng, w, reference, f, "sampled"));
            }
        }
        "C17" => {
            let f = Flavor {
                gc_stress: true,
                stalls: true,
                stall_main_only: false,
                selfcheck_every: 1,
            };
            let small = reference.steps <= 2_500 && !w.has_tasks;
            if small {
                // every constant budget up to the longest operand + 3 (operands are <= 12 bytes
                // + multibyte expansion; 48 covers them), collector untouched
                for k in 1..=48u32 {
                    specs.push(fixed(base(Budget::Const(k), GcTemplate::Default), reference, "every-constant-budget", 1));
                }
                exhaustive.push("constant budgets 1..=48".to_string());
                // a cycle started at every step of every string instruction, one increment per
                // instruction from there on
                for at in &reference.string_steps {
                    specs.push(fixed(
                        base(
                            Budget::Const(neutral),
                            GcTemplate::SingleCycle {
                                start_at: *at,
                                mark: 1,
                                sweep: 1,
                            },
                        ),
                        reference,
                        "cycle-start-at-every-string-step",
                        1,
                    ));
                }
                exhaustive.push(format!(
                    "single collection cycle started at each of the {} steps that execute a string instruction",
                    reference.string_steps.len()
                ));
            } else {
                specs.push(fixed(base(Budget::Const(1), GcTemplate::OneInc), reference, "one-increment-per-instruction", 1));
                specs.push(fixed(base(Budget::Const(3), GcTemplate::FullEveryStep), reference, "full-cycle-every-instruction", 1));
            }
            for _ in 0..n_sampled {
                specs.push(sampled(rng, w, reference, f, "sampled"));
            }
        }
        _ => {
            let f = Flavor {
                gc_stress: true,
                stalls: true,
                stall_main_only: false,
                selfcheck_every: 1,
            };
            for _ in 0..n_sampled {
                specs.push(sampled(rng, w, reference, f, "sampled"));
            }
        }
    }
    (specs, exhaustive)
}

// ------------------------------------------------------------------------------------------------
// per-property check parameters used by the driver

pub fn n_cells(prop: &str, tier: Tier) -> u64 {
    match (prop, tier) {
        ("C17", Tier::Quick) => 160,
        ("C17", Tier::Thorough) => 2400,
        ("C26", Tier::Quick) => 400,
        ("C26", Tier::Thorough) => 6000,
        (_, Tier::Quick) => 200,
        (_, Tier::Thorough) => 3000,
    }
}

pub fn n_determinism_cells(_prop: &str, tier: Tier) -> u64 {
    match tier {
        Tier::Quick => 6,
        Tier::Thorough => 48,
    }
}

pub fn wall_cap(_prop: &str, tier: Tier) -> std::time::Duration {
    std::time::Duration::from_secs(match tier {
        Tier::Quick => 240,
        Tier::Thorough => 1500,
    })
}

pub fn max_rejected_pct(_prop: &str) -> u64 {
    2
}

/// extra per-cell inputs the driver prepares before fanning out (e.g. corpus programs)
#[derive(Default)]
pub struct ExtraInputs {
    pub per_cell: Vec<Vec<String>>,
}

impl ExtraInputs {
    pub fn args_for(&self, index: u64) -> Vec<String> {
        self.per_cell.get(index as usize).cloned().unwrap_or_default()
    }
}

pub fn prepare_inputs(_prop: &str, _tier: Tier) -> ExtraInputs {
    ExtraInputs::default()
}

/// reach probes that must fire at least once in a check, or the check cannot claim to have
/// exercised its property (exit 2, never a violation)
pub fn required_probes(prop: &str, _tier: Tier) -> &'static [&'static str] {
    match prop {
        "C26" => &[
            "probe_heap_write_during_marking",
            "probe_array_pop_during_marking",
            "probe_alloc_during_marking",
            "probe_alloc_during_sweeping",
            "gc_objects_freed",
            "f4_forced_cycle_start",
        ],
        "C17" => &[
            "probe_cycle_start_in_string_op",
            "probe_slice_boundary_in_string_op",
            "probe_string_op_step_during_marking",
            "probe_string_op_step_during_sweeping",
            "gc_objects_freed",
        ],
        _ => &[],
    }
}

pub fn level(prop: &str) -> &'static str {
    match prop {
        "C06" | "C17" => "fault_enumeration",
        _ => "exploration",
    }
}

pub fn rule(prop: &str) -> String {
    let common = "One evaluation = one simulated run: a fresh Runtime of a generated (or corpus) program driven to completion by the simulated embedder under one decision trace (step budgets, host-call deferrals, collector start / mark / sweep increments), all drawn from VERIF_SEED. distinct_nontrivial counts distinct 64-bit hashes of the normalised event stream (every instruction with thread, pc and collector phase; spawns, channel operations, host calls, collector phase changes, embedder calls and their results) among the runs that are non-trivial for this property: ";
    let specific = match prop {
        "C26" | "C06" => "the collector was in its marking or sweeping phase while at least one program instruction executed, and it reclaimed at least one object.",
        "C17" => "a collection phase was active while a resumable string instruction was mid-way, or a run_n_steps call ended while one was in flight.",
        "C10" => "execution was cut into at least three run_n_steps calls.",
        "C11" => "at least three run_n_steps calls were made or at least one host call was deferred.",
        "C08" | "C09" => "a task was spawned and a host call was deferred, a collector phase overlapped execution, or execution was cut into at least three calls.",
        _ => "a collector phase overlapped execution, a host call was deferred, or execution was cut into at least three calls.",
    };
    format!("{common}{specific}")
}

pub fn assumptions(prop: &str) -> Vec<String> {
    let mut v = vec![
        "the abra_verif hooks (collector controller seam, quarantine side table, independent reachability trace, event stream) are trusted; with the feature off the crate is unchanged".to_string(),
        "simulation samples schedules and programs: a clean batch is evidence, not proof; the enumerated parts are exhaustive only within their stated bounds".to_string(),
        "abra_core is built without the ffi feature, so everything runs on one OS thread and the simulator is the only scheduler; FFI threads are outside every listed property".to_string(),
        "bytecode layout depends on process-global id counters, so each cell compiles exactly one program as its first action; replay files are re-executed the same way".to_string(),
    ];
    match prop {
        "C26" | "C17" => v.push("expected observations come from a Rust model inside the generator (Vec / byte-string semantics); programs render values with their own helper functions, not with the prelude's ToString for containers".to_string()),
        _ => {}
    }
    v
}
