//! The only source of randomness in the simulator: xoshiro256** seeded through splitmix64.
//! No dependency, no global state; every choice of a run is drawn from one of these.

#[derive(Clone, Debug)]
pub struct Rng {
    s: [u64; 4],
}

pub fn splitmix(x: &mut u64) -> u64 {
    *x = x.wrapping_add(0x9E37_79B9_7F4A_7C15);
    let mut z = *x;
    z = (z ^ (z >> 30)).wrapping_mul(0xBF58_476D_1CE4_E5B9);
    z = (z ^ (z >> 27)).wrapping_mul(0x94D0_49BB_1331_11EB);
    z ^ (z >> 31)
}

/// derive an independent seed from a parent seed and a label
pub fn mix(seed: u64, label: u64) -> u64 {
    let mut x = seed ^ label.wrapping_mul(0xD6E8_FEB8_6659_FD93);
    let a = splitmix(&mut x);
    let b = splitmix(&mut x);
    a ^ b.rotate_left(17)
}

pub fn mix_str(seed: u64, label: &str) -> u64 {
    let mut h: u64 = 0xcbf2_9ce4_8422_2325;
    for b in label.bytes() {
        h ^= b as u64;
        h = h.wrapping_mul(0x0100_0000_01b3);
    }
    mix(seed, h)
}

impl Rng {
    pub fn new(seed: u64) -> Self {
        let mut x = seed;
        let s = [
            splitmix(&mut x),
            splitmix(&mut x),
            splitmix(&mut x),
            splitmix(&mut x),
        ];
        Rng { s }
    }

    pub fn next(&mut self) -> u64 {
        let result = self.s[1].wrapping_mul(5).rotate_left(7).wrapping_mul(9);
        let t = self.s[1] << 17;
        self.s[2] ^= self.s[0];
        self.s[3] ^= self.s[1];
        self.s[1] ^= self.s[2];
        self.s[0] ^= self.s[3];
        self.s[2] ^= t;
        self.s[3] = self.s[3].rotate_left(45);
        result
    }

    /// uniform in 0..n (n > 0)
    pub fn below(&mut self, n: u64) -> u64 {
        debug_assert!(n > 0);
        // multiply-shift; bias is irrelevant here
        ((self.next() as u128 * n as u128) >> 64) as u64
    }

    /// uniform in lo..=hi
    pub fn range(&mut self, lo: u64, hi: u64) -> u64 {
        lo + self.below(hi - lo + 1)
    }

    pub fn chance(&mut self, num: u64, den: u64) -> bool {
        self.below(den) < num
    }

    pub fn pick<'a, T>(&mut self, xs: &'a [T]) -> &'a T {
        &xs[self.below(xs.len() as u64) as usize]
    }

    pub fn shuffle<T>(&mut self, xs: &mut [T]) {
        for i in (1..xs.len()).rev() {
            let j = self.below(i as u64 + 1) as usize;
            xs.swap(i, j);
        }
    }
}

/// 64-bit FNV-1a accumulator for trace hashes
#[derive(Clone, Copy, Debug)]
pub struct Fnv(pub u64);

impl Default for Fnv {
    fn default() -> Self {
        Fnv(0xcbf2_9ce4_8422_2325)
    }
}

impl Fnv {
    #[inline]
    pub fn u64(&mut self, x: u64) {
        let mut h = self.0;
        for i in 0..8 {
            h ^= (x >> (i * 8)) & 0xff;
            h = h.wrapping_mul(0x0100_0000_01b3);
        }
        self.0 = h;
    }
    pub fn bytes(&mut self, bs: &[u8]) {
        let mut h = self.0;
        for b in bs {
            h ^= *b as u64;
            h = h.wrapping_mul(0x0100_0000_01b3);
        }
        self.0 = h;
    }
}
