//! W-corpus: the repository's own programs, extracted from the current tree at check time
//! (raw-string programs of the integration tests, and the examples that need neither FFI nor
//! imports beyond the prelude).

use crate::workload::{Projection, Workload};
use serde::{Deserialize, Serialize};
use std::collections::BTreeMap;
use std::path::Path;

#[derive(Serialize, Deserialize, Clone, Debug)]
pub struct CorpusProgram {
    pub name: String,
    pub files: BTreeMap<String, String>,
}

fn raw_strings(block: &str) -> Vec<(String, String)> {
    // `let NAME = r#"` ... `"#`
    let mut out = vec![];
    let mut rest = block;
    while let Some(i) = rest.find("= r#\"") {
        let before = &rest[..i];
        let name = before
            .rsplit("let ")
            .next()
            .unwrap_or("")
            .trim()
            .trim_start_matches("mut ")
            .trim()
            .to_string();
        let after = &rest[i + 5..];
        let Some(end) = after.find("\"#") else { break };
        out.push((name, after[..end].to_string()));
        rest = &after[end + 2..];
    }
    out
}

pub fn extract_tests(path: &Path, out: &mut Vec<CorpusProgram>) {
    let Ok(text) = std::fs::read_to_string(path) else { return };
    let stem = path.file_stem().map(|s| s.to_string_lossy().to_string()).unwrap_or_default();
    for block in text.split("#[test]").skip(1) {
        let name = block
            .split("fn ")
            .nth(1)
            .and_then(|s| s.split('(').next())
            .unwrap_or("?")
            .trim()
            .to_string();
        let strings = raw_strings(block);
        if strings.is_empty() {
            continue;
        }
        let mut files = BTreeMap::new();
        // files.insert("PATH".into(), VAR.into())
        for line in block.lines() {
            let l = line.trim();
            if let Some(rest) = l.strip_prefix("files.insert(\"") {
                let mut parts = rest.splitn(2, '"');
                let p = parts.next().unwrap_or("").to_string();
                let var = parts
                    .next()
                    .unwrap_or("")
                    .split(',')
                    .nth(1)
                    .unwrap_or("")
                    .trim()
                    .trim_end_matches(");")
                    .trim_end_matches(".into()")
                    .trim()
                    .to_string();
                if let Some((_, text)) = strings.iter().find(|(n, _)| *n == var) {
                    files.insert(p, text.clone());
                }
            }
        }
        if files.is_empty() {
            files.insert("main.abra".to_string(), strings[0].1.clone());
        }
        if !files.contains_key("main.abra") {
            continue;
        }
        // a program that declares host or foreign functions of its own needs its own embedder;
        // the simulated host only implements the prelude's and simhost.abra's functions
        if files.values().any(|t| t.contains("#host") || t.contains("#foreign")) {
            continue;
        }
        out.push(CorpusProgram {
            name: format!("{stem}::{name}"),
            files,
        });
    }
}

pub fn extract_examples(dir: &Path, out: &mut Vec<CorpusProgram>) {
    let Ok(rd) = std::fs::read_dir(dir) else { return };
    let mut paths: Vec<_> = rd.filter_map(|e| e.ok()).map(|e| e.path()).collect();
    paths.sort();
    for p in paths {
        if p.extension().and_then(|e| e.to_str()) != Some("abra") {
            continue;
        }
        let Ok(text) = std::fs::read_to_string(&p) else { continue };
        // anything imported comes with foreign functions (core/*) or a window; the simulator is
        // built without FFI
        if text.lines().any(|l| l.trim_start().starts_with("use ")) {
            continue;
        }
        let mut files = BTreeMap::new();
        files.insert("main.abra".to_string(), text);
        out.push(CorpusProgram {
            name: format!("examples::{}", p.file_stem().unwrap().to_string_lossy()),
            files,
        });
    }
}

pub fn extract_all() -> Vec<CorpusProgram> {
    let mut out = vec![];
    extract_tests(Path::new("/repo/abra_core/tests/integration/e2e_bytecode.rs"), &mut out);
    extract_tests(Path::new("/repo/abra_core/tests/integration/threads.rs"), &mut out);
    extract_examples(Path::new("/repo/examples"), &mut out);
    out
}

pub fn workload_of(c: &CorpusProgram) -> Workload {
    let main = c.files.get("main.abra").cloned().unwrap_or_default();
    let mut w = Workload::new("corpus", c.name.clone(), main);
    w.extra_files = c
        .files
        .iter()
        .filter(|(p, _)| p.as_str() != "main.abra")
        .map(|(p, t)| (p.clone(), t.clone()))
        .collect();
    w.has_tasks = c.files.values().any(|t| t.contains("task {") || t.contains("task{"));
    w.projection = if w.has_tasks { Projection::MainOnly } else { Projection::AllThreads };
    w
}
