//! Offline oracles: what a finished run must look like, given what the generator knows about the
//! workload (model) and given the reference run of the same program (collector off, largest
//! budget, immediate service).

use crate::embed::{Outcome, RunResult, Violation};
use crate::workload::{Projection, Workload};

fn v(oracle: &str, msg: String) -> Violation {
    Violation {
        oracle: oracle.to_string(),
        msg,
    }
}

fn first_diff<T: PartialEq + std::fmt::Debug>(want: &[T], got: &[T]) -> String {
    for (i, (w, g)) in want.iter().zip(got.iter()).enumerate() {
        if w != g {
            return format!("at index {i}: expected {w:?}, got {g:?}");
        }
    }
    if want.len() > got.len() {
        format!(
            "only {} of {} entries; first missing: {:?}",
            got.len(),
            want.len(),
            want[got.len()]
        )
    } else {
        format!(
            "{} entries instead of {}; first extra: {:?}",
            got.len(),
            want.len(),
            got[want.len()]
        )
    }
}

pub struct Judgement {
    pub violations: Vec<Violation>,
    /// the run hit its step cap while faults were still being injected: nothing can be concluded
    pub inconclusive: bool,
}

/// `liveness_due`: the run's step cap was `fault window + liveness bound`, i.e. hitting the cap
/// means the workload did not finish within the bound after the faults had stopped.
pub fn judge(
    w: &Workload,
    reference: Option<&RunResult>,
    run: &RunResult,
    liveness_due: bool,
) -> Judgement {
    let mut out: Vec<Violation> = run.violations.clone();
    let mut inconclusive = false;
    if !out.is_empty() {
        // a run that ended in a violation did not finish its workload; nothing else to compare
        return Judgement {
            violations: out,
            inconclusive,
        };
    }
    match &run.outcome {
        Outcome::Cap => {
            if liveness_due && w.expect.terminating {
                out.push(v(
                    "live:no-completion-after-faults-stopped",
                    format!(
                        "the workload did not complete within its bound after the last fault ({} instructions, {} calls)",
                        run.steps, run.calls
                    ),
                ));
            } else {
                inconclusive = true;
            }
            return Judgement {
                violations: out,
                inconclusive,
            };
        }
        Outcome::Stalled => {
            if w.expect.terminating {
                out.push(v(
                    "live:stalled-with-no-runnable-task",
                    format!(
                        "after {} instructions no task can run any more although main has not finished and no host call is pending",
                        run.steps
                    ),
                ));
            } else {
                inconclusive = true;
            }
            return Judgement {
                violations: out,
                inconclusive,
            };
        }
        Outcome::Dropped | Outcome::Fault => {
            return Judgement {
                violations: out,
                inconclusive,
            };
        }
        Outcome::Done | Outcome::Error(_) => {}
    }
    let main_obs: Vec<(i64, String)> = run
        .observed
        .obs
        .iter()
        .filter(|(t, _, _)| *t == 0)
        .map(|(_, tag, p)| (*tag, p.clone()))
        .collect();

    // ---- model oracles ------------------------------------------------------------------------
    match (&w.expect.error_prefix, &run.outcome) {
        (Some(prefix), Outcome::Error(text)) => {
            if !text.starts_with(prefix.as_str()) {
                out.push(v(
                    "model:wrong-error",
                    format!("expected an error starting with {prefix:?}, got {:?}", text.lines().next().unwrap_or("")),
                ));
            } else if let Some(line) = w.expect.error_line {
                let file = w.expect.error_file.clone().unwrap_or_else(|| "main.abra".to_string());
                let needle = format!("{file}:{line} ");
                let first_frame = text.lines().nth(2).unwrap_or("");
                if !first_frame.contains(&needle) {
                    out.push(v(
                        "model:wrong-error-location",
                        format!("expected the error at {file}:{line}, innermost frame is {first_frame:?}"),
                    ));
                }
            }
        }
        (Some(prefix), Outcome::Done) => out.push(v(
            "model:missing-error",
            format!("the program must stop with {prefix:?} but completed"),
        )),
        (None, Outcome::Error(text)) if w.expect.main_obs.is_some() || w.expect.final_top.is_some() => {
            out.push(v(
                "model:unexpected-error",
                format!("the program must complete but stopped with {:?}", text.lines().next().unwrap_or("")),
            ))
        }
        _ => {}
    }
    if let Some(want) = &w.expect.main_obs {
        // with an expected error the observations up to the error must match
        if *want != main_obs {
            out.push(v(
                "model:observation-differs",
                format!("observations of main differ from the model: {}", first_diff(want, &main_obs)),
            ));
        }
    }
    if let Some(want) = &w.expect.main_obs_sorted {
        let mut got = main_obs.clone();
        got.sort();
        let mut want = want.clone();
        want.sort();
        if want != got {
            out.push(v(
                "model:observation-multiset-differs",
                format!("observations of main differ from the model as a multiset: {}", first_diff(&want, &got)),
            ));
        }
    }
    if let (Some(want), Outcome::Done) = (&w.expect.final_top, &run.outcome)
        && run.observed.final_top.as_ref() != Some(want)
    {
        out.push(v(
            "model:final-value",
            format!("final value: expected {want}, got {:?}", run.observed.final_top),
        ));
    }
    if let Some(want) = &w.expect.main_host_calls {
        let got: Vec<String> = run
            .observed
            .host_calls
            .iter()
            .filter(|(t, _)| *t == 0)
            .map(|(_, s)| s.clone())
            .collect();
        if *want != got {
            out.push(v(
                "model:host-call-arguments",
                format!("host calls of main differ from the model: {}", first_diff(want, &got)),
            ));
        }
    }
    if w.expect.drains && matches!(run.outcome, Outcome::Done) && run.unread_messages != 0 {
        out.push(v(
            "chan:value-lost-or-unread",
            format!(
                "{} written values were never read although the workload drains its channels ({} writes, {} reads)",
                run.unread_messages,
                run.counters.get("chan_writes").copied().unwrap_or(0),
                run.counters.get("chan_reads").copied().unwrap_or(0)
            ),
        ));
    }

    // ---- refinement of the reference run --------------------------------------------------------
    if let Some(r) = reference
        && matches!(r.outcome, Outcome::Done | Outcome::Error(_))
        && r.violations.is_empty()
    {
        if r.outcome != run.outcome {
            out.push(v(
                "ref:outcome-differs",
                format!("reference run ended with {:?}, this run with {:?}", r.outcome, run.outcome),
            ));
        }
        let (a, b) = (r.observed.per_thread(), run.observed.per_thread());
        match w.projection {
            Projection::AllThreads => {
                // main's sequence must be identical. A run ends when main finishes, wherever the
                // other tasks happen to be, so for them one sequence must be a prefix of the other.
                let empty = vec![];
                let bad = a.keys().chain(b.keys()).find(|t| {
                    let (x, y) = (a.get(t).unwrap_or(&empty), b.get(t).unwrap_or(&empty));
                    if **t == 0 {
                        x != y
                    } else {
                        let n = x.len().min(y.len());
                        x[..n] != y[..n]
                    }
                });
                if let Some(t) = bad {
                    out.push(v(
                        "ref:output-differs",
                        format!(
                            "host calls of t{t} differ from the reference run: {}",
                            first_diff(a.get(t).unwrap_or(&empty), b.get(t).unwrap_or(&empty))
                        ),
                    ));
                }
            }
            Projection::MainOnly => {
                let empty = vec![];
                let (x, y) = (a.get(&0).unwrap_or(&empty), b.get(&0).unwrap_or(&empty));
                if x != y {
                    out.push(v(
                        "ref:output-differs",
                        format!("host calls of main differ from the reference run: {}", first_diff(x, y)),
                    ));
                }
            }
            Projection::None => {}
        }
        if matches!(w.projection, Projection::AllThreads | Projection::MainOnly)
            && r.observed.final_top != run.observed.final_top
        {
            out.push(v(
                "ref:final-value-differs",
                format!(
                    "final value {:?} differs from the reference run's {:?}",
                    run.observed.final_top, r.observed.final_top
                ),
            ));
        }
    }
    Judgement {
        violations: out,
        inconclusive,
    }
}
