//! Replay files: everything needed to re-execute one violating run in a fresh process.

use crate::cell::{compile, reference_run};
use crate::embed::*;
use crate::plan::RunSpec;
use crate::workload::Workload;
use serde::{Deserialize, Serialize};

#[derive(Serialize, Deserialize, Clone, Debug)]
pub struct Replay {
    pub property: String,
    /// oracle id of the violation; a replay reproduces iff the same oracle fires again
    pub oracle: String,
    pub msg: String,
    pub verif_seed: u64,
    pub cell_seed: u64,
    pub cell_index: u64,
    pub tier: String,
    /// run index inside the cell (-1: the reference run itself)
    pub run: i64,
    /// "trace": re-run `workload` under `trace`; "cell": re-run the whole cell from its seed
    /// (used when the host process died and no trace could be reported)
    pub kind: String,
    pub workload: Option<Workload>,
    pub spec: Option<RunSpec>,
    pub trace: Option<Trace>,
    /// the last events before the violation, as recorded when it was found (informational)
    pub recent_events: Vec<String>,
    pub repo_rev: String,
    pub minimised: bool,
    pub notes: Vec<String>,
}

pub enum ReplayOutcome {
    /// the same oracle fired again (with the last events of the run, oldest first)
    Reproduced(Violation, Vec<String>),
    /// the run completed and judged clean, or a different oracle fired
    NotReproduced(String),
    /// the workload does not compile any more (only happens to minimisation candidates)
    Rejected(String),
}

/// re-execute a trace replay in this process (which must not have compiled anything before)
pub fn execute(r: &Replay) -> ReplayOutcome {
    let (Some(w), Some(spec), Some(trace)) = (&r.workload, &r.spec, &r.trace) else {
        return ReplayOutcome::Rejected("not a trace replay".into());
    };
    let mk = match compile(w) {
        Ok(mk) => mk,
        Err(e) => return ReplayOutcome::Rejected(e),
    };
    let needs_reference = r.run >= 0;
    let reference = if needs_reference {
        let rr = reference_run(w, &mk, 1_500_000);
        if matches!(rr.outcome, Outcome::Cap) {
            return ReplayOutcome::Rejected("reference run does not finish".into());
        }
        Some(rr)
    } else {
        None
    };
    let crate::cell::Evaluated { result: res, judgement: j } =
        crate::cell::evaluate(w, &mk, reference.as_ref(), spec, Source::Trace(trace.clone()));
    match j.violations.iter().find(|v| v.oracle == r.oracle) {
        Some(v) => ReplayOutcome::Reproduced(v.clone(), res.recent.clone()),
        None => ReplayOutcome::NotReproduced(format!(
            "outcome {:?}, violations {:?}",
            res.outcome,
            j.violations.iter().map(|v| v.oracle.clone()).collect::<Vec<_>>()
        )),
    }
}
