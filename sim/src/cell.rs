//! One simulation cell = one OS process: generate one workload from the cell seed, compile it
//! (the first and only compile in the process), run the reference schedule, then run the planned
//! schedules and judge each run.

use crate::embed::*;
use crate::judge::judge;
use crate::plan::{self, RunSpec, Tier};
use crate::rng::{Rng, mix};
use crate::workload::Workload;
use serde::{Deserialize, Serialize};
use std::collections::{BTreeMap, BTreeSet, HashMap};
use std::path::PathBuf;

#[derive(Serialize, Deserialize, Clone, Debug)]
pub struct CellViolation {
    /// run index within the cell, -1 = the reference run
    pub run: i64,
    pub oracle: String,
    pub msg: String,
    pub spec: RunSpec,
    pub trace: Trace,
    pub recent: Vec<String>,
}

#[derive(Serialize, Deserialize, Clone, Debug)]
pub struct Sample {
    pub family: String,
    pub workload: String,
    pub program_lines: usize,
    pub program_excerpt: String,
    pub schedule: String,
    pub decisions: String,
    pub outcome: String,
    pub instructions: u64,
    pub calls: u64,
}

#[derive(Serialize, Deserialize, Clone, Debug, Default)]
pub struct CellReport {
    pub property: String,
    pub cell_seed: u64,
    pub family: String,
    pub descr: String,
    pub rejected: Option<String>,
    pub ref_outcome: String,
    pub ref_steps: u64,
    pub runs: u64,
    pub inconclusive: u64,
    pub hashes_nontrivial: Vec<u64>,
    pub sim_steps: u64,
    pub idle_turns: u64,
    pub calls: u64,
    pub counters: BTreeMap<String, u64>,
    pub phase_instr: BTreeSet<(u8, String)>,
    pub violations: Vec<CellViolation>,
    pub sample: Option<Sample>,
    pub exhaustive: Vec<String>,
    pub workload: Option<Workload>,
}

pub fn compile(
    w: &Workload,
) -> Result<impl Fn() -> abra_core::vm::Runtime + use<>, String> {
    let mut files = HashMap::new();
    files.insert(PathBuf::from("main.abra"), w.main_src.clone());
    files.insert(PathBuf::from("simhost.abra"), crate::HOST_SRC.to_string());
    for (path, text) in &w.extra_files {
        files.insert(PathBuf::from(path), text.clone());
    }
    // the compiler may panic on shapes that belong to compile-time properties; a workload it
    // cannot compile is rejected, never judged
    let r = std::panic::catch_unwind(|| {
        abra_core::compile_bytecode_with_host_funcs(
            "main.abra",
            "simhost.abra",
            abra_core::MockFileProvider::new(files),
        )
    });
    match r {
        Ok(Ok(program)) => Ok(move || abra_core::vm::Runtime::new(program.clone())),
        Ok(Err(e)) => Err(format!("rejected by the compiler: {}", e.to_string().lines().take(6).collect::<Vec<_>>().join(" / "))),
        Err(_) => Err("the compiler panicked".to_string()),
    }
}

fn nontrivial(prop: &str, r: &RunResult) -> bool {
    let c = |k: &str| r.counters.get(k).copied().unwrap_or(0);
    let mid_cycle_instr = r.phase_instr.iter().any(|(p, _)| *p != 0);
    let mid_cycle_string = r
        .phase_instr
        .iter()
        .any(|(p, n)| *p != 0 && (n.ends_with("String") || n == "ConcatStrings"));
    match prop {
        "C06" | "C26" => mid_cycle_instr && c("gc_objects_freed") > 0,
        "C17" => mid_cycle_string || c("probe_slice_boundary_in_string_op") > 0,
        "C10" => r.calls >= 3,
        "C11" => r.calls >= 3 || c("f2_defer") > 0,
        "C08" | "C09" => c("ev_spawn") > 0 && (c("f2_defer") > 0 || mid_cycle_instr || r.calls >= 3),
        _ => {
            mid_cycle_instr || c("f2_defer") > 0 || r.calls >= 3
        }
    }
}

fn describe_trace(t: &Trace) -> String {
    let b: Vec<String> = t.budgets.iter().take(6).map(|(k, n)| format!("{k}x{n}")).collect();
    let g: Vec<String> = t
        .gc
        .iter()
        .take(5)
        .map(|r| format!("@{}+{}:{}{}/{}", r.at, r.n, if r.start { "S" } else { "" }, r.mark, r.sweep))
        .collect();
    format!(
        "budgets[{}{}] defers[{}{}] gc[{}{}] base={:?}",
        b.join(","),
        if t.budgets.len() > 6 { ",…" } else { "" },
        t.defers.iter().take(6).map(|d| d.to_string()).collect::<Vec<_>>().join(","),
        if t.defers.len() > 6 { ",…" } else { "" },
        g.join(","),
        if t.gc.len() > 5 { ",…" } else { "" },
        t.gc_base
    )
}

pub fn opts_for(spec: &RunSpec) -> RunOptions {
    spec.opts.clone()
}

/// run the reference schedule of a compiled workload
pub fn reference_run(w: &Workload, mk: &dyn Fn() -> abra_core::vm::Runtime, step_cap: u64) -> RunResult {
    let opts = RunOptions {
        step_cap,
        selfcheck_every: 0,
        quarantine: true,
        ..Default::default()
    };
    run_once(
        mk,
        Source::Seed {
            rng: Rng::new(0),
            p: Personality::reference(w.neutral_budget()),
        },
        &opts,
    )
}

pub fn run_cell(prop: &str, tier: Tier, cell_seed: u64, workload: Workload, keep_workload: bool) -> CellReport {
    let mut rep = CellReport {
        property: prop.to_string(),
        cell_seed,
        family: workload.family.clone(),
        descr: workload.descr.clone(),
        ..Default::default()
    };
    let mk = match compile(&workload) {
        Ok(mk) => mk,
        Err(e) => {
            rep.rejected = Some(e);
            rep.workload = Some(workload);
            return rep;
        }
    };
    let ref_cap = plan::reference_step_cap(prop, tier);
    let reference = reference_run(&workload, &mk, ref_cap);
    rep.ref_steps = reference.steps;
    rep.ref_outcome = format!("{:?}", reference.outcome).chars().take(80).collect();
    let ref_spec = RunSpec {
        label: "reference".into(),
        personality: Personality::reference(workload.neutral_budget()),
        opts: RunOptions {
            step_cap: ref_cap,
            selfcheck_every: 0,
            ..Default::default()
        },
        liveness_due: false,
    };
    if matches!(reference.outcome, Outcome::Cap) {
        // a program that does not finish under the reference schedule within the cap is not
        // usable as a workload (nothing to compare with)
        rep.rejected = Some(format!("reference run did not finish within {ref_cap} instructions"));
        rep.workload = Some(workload);
        return rep;
    }
    let j = judge(&workload, None, &reference, false);
    for v in j.violations {
        rep.violations.push(CellViolation {
            run: -1,
            oracle: v.oracle,
            msg: v.msg,
            spec: ref_spec.clone(),
            trace: reference.trace.clone(),
            recent: reference.recent.clone(),
        });
    }
    let mut hashes = BTreeSet::new();
    if rep.violations.is_empty() {
        let mut rng = Rng::new(mix(cell_seed, 2));
        let (specs, exhaustive) = plan::runs(prop, tier, &mut rng, &workload, &reference);
        rep.exhaustive = exhaustive;
        for (i, spec) in specs.iter().enumerate() {
            println!("RUN {i}");
            let src = Source::Seed {
                rng: Rng::new(mix(cell_seed, 1000 + i as u64)),
                p: spec.personality.clone(),
            };
            let res = run_once(&mk, src, &spec.opts);
            let j = judge(&workload, Some(&reference), &res, spec.liveness_due);
            rep.runs += 1;
            rep.sim_steps += res.steps;
            rep.idle_turns += res.idle_turns;
            rep.calls += res.calls;
            if j.inconclusive {
                rep.inconclusive += 1;
            }
            for (k, n) in &res.counters {
                *rep.counters.entry(k.clone()).or_insert(0) += n;
            }
            for pi in &res.phase_instr {
                rep.phase_instr.insert(pi.clone());
            }
            if nontrivial(prop, &res) {
                hashes.insert(res.hash);
            }
            if rep.sample.is_none() && (i == specs.len() / 2 || specs.len() == 1) {
                rep.sample = Some(Sample {
                    family: workload.family.clone(),
                    workload: workload.descr.chars().take(300).collect(),
                    program_lines: workload.main_src.lines().count(),
                    program_excerpt: workload
                        .main_src
                        .lines()
                        .rev()
                        .take(12)
                        .collect::<Vec<_>>()
                        .into_iter()
                        .rev()
                        .collect::<Vec<_>>()
                        .join("\n"),
                    schedule: format!("{:?}", spec.personality),
                    decisions: describe_trace(&res.trace),
                    outcome: format!("{:?}", res.outcome).chars().take(120).collect(),
                    instructions: res.steps,
                    calls: res.calls,
                });
            }
            if let Some(v) = j.violations.first() {
                rep.violations.push(CellViolation {
                    run: i as i64,
                    oracle: v.oracle.clone(),
                    msg: v.msg.clone(),
                    spec: spec.clone(),
                    trace: res.trace.clone(),
                    recent: res.recent.clone(),
                });
                // one violation per cell is enough; later runs of the same program mostly repeat it
                if rep.violations.len() >= 2 {
                    break;
                }
            }
        }
    }
    rep.hashes_nontrivial = hashes.into_iter().collect();
    if keep_workload || !rep.violations.is_empty() {
        rep.workload = Some(workload);
    }
    rep
}
