//! One simulation cell = one OS process: generate one workload from the cell seed, compile it
//! (the first and only compile in the process), run the reference schedule, then run the planned
//! schedules and judge each run.

use crate::embed::*;
use crate::judge::{Judgement, judge};
use crate::plan::{self, RunSpec, Tier};
use crate::rng::{Rng, mix};
use crate::workload::Workload;
use serde::{Deserialize, Serialize};
use std::collections::{BTreeMap, BTreeSet, HashMap};
use std::path::PathBuf;

#[derive(Serialize, Deserialize, Clone, Debug)]
pub struct CellViolation {
    /// run index within the cell, -1 = the reference run
    pub run: i64,
    pub oracle: String,
    pub msg: String,
    pub spec: RunSpec,
    pub trace: Trace,
    pub recent: Vec<String>,
}

#[derive(Serialize, Deserialize, Clone, Debug)]
pub struct Sample {
    pub family: String,
    pub workload: String,
    pub program_lines: usize,
    pub program_excerpt: String,
    pub schedule: String,
    pub decisions: String,
    pub outcome: String,
    pub instructions: u64,
    pub calls: u64,
}

#[derive(Serialize, Deserialize, Clone, Debug, Default)]
pub struct CellReport {
    pub property: String,
    pub cell_seed: u64,
    pub family: String,
    pub descr: String,
    pub rejected: Option<String>,
    pub ref_outcome: String,
    pub ref_steps: u64,
    pub runs: u64,
    pub inconclusive: u64,
    pub hashes_nontrivial: Vec<u64>,
    pub sim_steps: u64,
    pub idle_turns: u64,
    pub calls: u64,
    pub counters: BTreeMap<String, u64>,
    pub phase_instr: BTreeSet<(u8, String)>,
    pub violations: Vec<CellViolation>,
    pub sample: Option<Sample>,
    pub exhaustive: Vec<String>,
    pub workload: Option<Workload>,
}

pub fn compile(
    w: &Workload,
) -> Result<impl Fn() -> abra_core::vm::Runtime + use<>, String> {
    let mut files = HashMap::new();
    files.insert(PathBuf::from("main.abra"), w.main_src.clone());
    files.insert(PathBuf::from("simhost.abra"), crate::HOST_SRC.to_string());
    for (path, text) in &w.extra_files {
        files.insert(PathBuf::from(path), text.clone());
    }
    // the compiler may panic on shapes that belong to compile-time properties; a workload it
    // cannot compile is rejected, never judged
    let r = std::panic::catch_unwind(|| {
        abra_core::compile_bytecode_with_host_funcs(
            "main.abra",
            "simhost.abra",
            abra_core::MockFileProvider::new(files),
        )
    });
    match r {
        Ok(Ok(program)) => Ok(move || abra_core::vm::Runtime::new(program.clone())),
        Ok(Err(e)) => Err(format!("rejected by the compiler: {}", e.to_string().lines().take(6).collect::<Vec<_>>().join(" / "))),
        Err(_) => Err("the compiler panicked".to_string()),
    }
}

fn nontrivial(prop: &str, r: &RunResult) -> bool {
    let c = |k: &str| r.counters.get(k).copied().unwrap_or(0);
    let mid_cycle_instr = r.phase_instr.iter().any(|(p, _)| *p != 0);
    let mid_cycle_string = r
        .phase_instr
        .iter()
        .any(|(p, n)| *p != 0 && (n.ends_with("String") || n == "ConcatStrings"));
    match prop {
        "C06" | "C26" => mid_cycle_instr && c("gc_objects_freed") > 0,
        "C17" => mid_cycle_string || c("probe_slice_boundary_in_string_op") > 0,
        "C07" => true,
        "C10" => r.calls >= 3,
        "C11" => r.calls >= 3 || c("f2_defer") > 0,
        "C08" | "C09" => c("ev_spawn") > 0 && (c("f2_defer") > 0 || mid_cycle_instr || r.calls >= 3),
        _ => {
            mid_cycle_instr || c("f2_defer") > 0 || r.calls >= 3
        }
    }
}

fn describe_trace(t: &Trace) -> String {
    let b: Vec<String> = t.budgets.iter().take(6).map(|(k, n)| format!("{k}x{n}")).collect();
    let g: Vec<String> = t
        .gc
        .iter()
        .take(5)
        .map(|r| format!("@{}+{}:{}{}/{}", r.at, r.n, if r.start { "S" } else { "" }, r.mark, r.sweep))
        .collect();
    format!(
        "budgets[{}{}] defers[{}{}] gc[{}{}] base={:?}",
        b.join(","),
        if t.budgets.len() > 6 { ",…" } else { "" },
        t.defers.iter().take(6).map(|d| d.to_string()).collect::<Vec<_>>().join(","),
        if t.defers.len() > 6 { ",…" } else { "" },
        g.join(","),
        if t.gc.len() > 5 { ",…" } else { "" },
        t.gc_base
    )
}

/// run the reference schedule of a compiled workload
pub fn reference_run(w: &Workload, mk: &dyn Fn() -> abra_core::vm::Runtime, step_cap: u64) -> RunResult {
    let opts = RunOptions {
        step_cap,
        selfcheck_every: 0,
        quarantine: true,
        record_string_steps: true,
        ..Default::default()
    };
    run_once(
        mk,
        Source::Seed {
            rng: Rng::new(0),
            p: Personality::reference(w.neutral_budget()),
        },
        &opts,
    )
}

pub fn run_cell(prop: &str, tier: Tier, cell_seed: u64, workload: Workload, keep_workload: bool) -> CellReport {
    let mut rep = CellReport {
        property: prop.to_string(),
        cell_seed,
        family: workload.family.clone(),
        descr: workload.descr.clone(),
        ..Default::default()
    };
    let mk = match compile(&workload) {
        Ok(mk) => mk,
        Err(e) => {
            rep.rejected = Some(e);
            rep.workload = Some(workload);
            return rep;
        }
    };
    let ref_cap = plan::reference_step_cap(prop, tier);
    let reference = reference_run(&workload, &mk, ref_cap);
    rep.ref_steps = reference.steps;
    rep.ref_outcome = format!("{:?}", reference.outcome).chars().take(80).collect();
    let ref_spec = RunSpec {
        mode: plan::Mode::Normal,
        label: "reference".into(),
        personality: Personality::reference(workload.neutral_budget()),
        opts: RunOptions {
            step_cap: ref_cap,
            selfcheck_every: 0,
            ..Default::default()
        },
        liveness_due: false,
    };
    if matches!(reference.outcome, Outcome::Cap) {
        // a program that does not finish under the reference schedule within the cap is not
        // usable as a workload (nothing to compare with)
        rep.rejected = Some(format!("reference run did not finish within {ref_cap} instructions"));
        rep.workload = Some(workload);
        return rep;
    }
    let j = judge(&workload, None, &reference, false);
    for v in j.violations {
        rep.violations.push(CellViolation {
            run: -1,
            oracle: v.oracle,
            msg: v.msg,
            spec: ref_spec.clone(),
            trace: reference.trace.clone(),
            recent: reference.recent.clone(),
        });
    }
    let mut hashes = BTreeSet::new();
    if rep.violations.is_empty() {
        let mut rng = Rng::new(mix(cell_seed, 2));
        let (specs, exhaustive) = plan::runs(prop, tier, &mut rng, &workload, &reference);
        rep.exhaustive = exhaustive;
        for (i, spec) in specs.iter().enumerate() {
            println!("RUN {i}");
            let src = Source::Seed {
                rng: Rng::new(mix(cell_seed, 1000 + i as u64)),
                p: spec.personality.clone(),
            };
            let Evaluated { result: res, judgement: j } = evaluate(&workload, &mk, Some(&reference), spec, src);
            rep.runs += 1;
            rep.sim_steps += res.steps;
            rep.idle_turns += res.idle_turns;
            rep.calls += res.calls;
            if j.inconclusive {
                rep.inconclusive += 1;
            }
            for (k, n) in &res.counters {
                *rep.counters.entry(k.clone()).or_insert(0) += n;
            }
            for pi in &res.phase_instr {
                rep.phase_instr.insert(pi.clone());
            }
            if nontrivial(prop, &res) {
                hashes.insert(res.hash);
            }
            if rep.sample.is_none() && (i == specs.len() / 2 || specs.len() == 1) {
                rep.sample = Some(Sample {
                    family: workload.family.clone(),
                    workload: workload.descr.chars().take(300).collect(),
                    program_lines: workload.main_src.lines().count(),
                    program_excerpt: workload
                        .main_src
                        .lines()
                        .rev()
                        .take(12)
                        .collect::<Vec<_>>()
                        .into_iter()
                        .rev()
                        .collect::<Vec<_>>()
                        .join("\n"),
                    schedule: format!("{:?}", spec.personality),
                    decisions: describe_trace(&res.trace),
                    outcome: format!("{:?}", res.outcome).chars().take(120).collect(),
                    instructions: res.steps,
                    calls: res.calls,
                });
            }
            if let Some(v) = j.violations.first() {
                rep.violations.push(CellViolation {
                    run: i as i64,
                    oracle: v.oracle.clone(),
                    msg: v.msg.clone(),
                    spec: spec.clone(),
                    trace: res.trace.clone(),
                    recent: res.recent.clone(),
                });
                // one violation per cell is enough; later runs of the same program mostly repeat it
                if rep.violations.len() >= 2 {
                    break;
                }
            }
        }
    }
    rep.hashes_nontrivial = hashes.into_iter().collect();
    if keep_workload || !rep.violations.is_empty() {
        rep.workload = Some(workload);
    }
    rep
}

pub struct Evaluated {
    pub result: RunResult,
    pub judgement: Judgement,
}

fn mem_violation(oracle: &str, msg: String) -> Violation {
    Violation {
        oracle: oracle.to_string(),
        msg,
    }
}

/// growth rule shared by the leak modes: live bytes after iterations 3, 4, 5, 6 of an identical
/// life must not keep growing (the first two iterations absorb one-off capacity effects). Growth
/// in three consecutive iterations is a suspicion only: a real per-life leak grows in EVERY
/// iteration, amortised capacity growth somewhere in the process does not, so a suspicion is
/// confirmed by eight more iterations that must each grow as well.
const LEAK_ITERATIONS: usize = 6;
const LEAK_CONFIRMATIONS: usize = 8;

fn leak_check(one: &mut dyn FnMut() -> Result<usize, Violation>, what: &str) -> Option<Violation> {
    let mut live = vec![];
    for _ in 0..LEAK_ITERATIONS {
        match one() {
            Ok(l) => live.push(l),
            Err(v) => return Some(v),
        }
    }
    let grows = |xs: &[usize]| xs.windows(2).all(|w| w[1] > w[0]);
    if !grows(&live[LEAK_ITERATIONS - 4..]) {
        return None;
    }
    for _ in 0..LEAK_CONFIRMATIONS {
        match one() {
            Ok(l) => live.push(l),
            Err(v) => return Some(v),
        }
    }
    let steady = &live[LEAK_ITERATIONS - 4..];
    if !grows(steady) {
        return None;
    }
    let per_iteration = (steady[steady.len() - 1] - steady[0]) / (steady.len() - 1);
    Some(mem_violation(
        "mem:leak-per-create-run-drop",
        format!(
            "process memory grows by about {per_iteration} bytes every time {what} (live bytes after each of the last {} identical iterations: {steady:?})",
            steady.len()
        ),
    ))
}

/// several runtimes of one program, created / run / serviced / dropped in an interleaved order
fn life_history_once(mk: &dyn Fn() -> abra_core::vm::Runtime, seed: u64, ops: u32) -> Result<(), String> {
    use abra_core::vm::RuntimeStatusKind;
    let mut rng = Rng::new(seed);
    let host = PlainHost::new();
    let mut slots: Vec<Option<abra_core::vm::Runtime>> = (0..4).map(|_| None).collect();
    let r = std::panic::catch_unwind(std::panic::AssertUnwindSafe(|| -> Result<(), String> {
        for _ in 0..ops {
            let j = rng.below(4) as usize;
            match rng.below(10) {
                0 | 1 => {
                    if slots[j].is_none() {
                        slots[j] = Some(mk());
                    }
                }
                2..=6 => {
                    if let Some(rt) = slots[j].as_mut() {
                        let k = *rng.pick(&[1u32, 3, 17, 100, 1000, 5000]);
                        let st = rt.run_n_steps(k);
                        match st.kind {
                            RuntimeStatusKind::Done | RuntimeStatusKind::MainThreadError(_) => {
                                // finished runtimes are dropped at once or kept around for a while
                                if rng.chance(1, 2) {
                                    slots[j] = None;
                                }
                            }
                            _ => {
                                if rng.chance(3, 4) {
                                    host.serve_all(rt)?;
                                }
                            }
                        }
                    }
                }
                7 => {
                    if let Some(rt) = slots[j].as_mut() {
                        host.serve_all(rt)?;
                    }
                }
                _ => {
                    slots[j] = None;
                }
            }
        }
        Ok(())
    }));
    let r2 = std::panic::catch_unwind(std::panic::AssertUnwindSafe(|| slots.clear()));
    match (r, r2) {
        (Ok(Ok(())), Ok(())) => Ok(()),
        (Ok(Err(e)), _) => Err(e),
        (Err(e), _) | (_, Err(e)) => Err(if let Some(s) = e.downcast_ref::<String>() {
            s.clone()
        } else if let Some(s) = e.downcast_ref::<&str>() {
            s.to_string()
        } else {
            "panic".into()
        }),
    }
}

pub fn evaluate(
    w: &Workload,
    mk: &dyn Fn() -> abra_core::vm::Runtime,
    reference: Option<&RunResult>,
    spec: &RunSpec,
    src: Source,
) -> Evaluated {
    use plan::Mode;
    match &spec.mode {
        Mode::Normal => {
            let result = run_once(mk, src, &spec.opts);
            let judgement = judge(w, reference, &result, spec.liveness_due);
            Evaluated { result, judgement }
        }
        Mode::LeakRepeat => {
            let first = run_once(mk, src, &spec.opts);
            let mut violations = first.violations.clone();
            if violations.is_empty() {
                let trace = first.trace.clone();
                let mut one = || -> Result<usize, Violation> {
                    let r = run_once(mk, Source::Trace(trace.clone()), &spec.opts);
                    let fault = r.violations.first().cloned();
                    drop(r);
                    // the hooks' own tables are not part of what is measured
                    abra_core::verif::release_tables();
                    match fault {
                        Some(v) => Err(v),
                        None => Ok(crate::mem::live()),
                    }
                };
                if let Some(v) = leak_check(&mut one, "this runtime life (create, run under this schedule, drop at this point) is repeated") {
                    violations.push(v);
                }
            }
            Evaluated {
                result: first,
                judgement: Judgement {
                    violations,
                    inconclusive: false,
                },
            }
        }
        Mode::LifeHistory { seed, ops } => {
            // the RunResult only carries counters here; the history itself is a function of `seed`
            let mut result = run_once(mk, src, &spec.opts);
            let mut violations = result.violations.clone();
            abra_core::verif::reset();
            abra_core::verif::set_config(abra_core::verif::Config {
                quarantine: false,
                selfcheck_every: 0,
            });
            let mut one = || -> Result<usize, Violation> {
                let r = life_history_once(mk, *seed, *ops);
                abra_core::verif::release_tables();
                match r {
                    Err(e) => Err(mem_violation(
                        "fault:host-panic",
                        format!("panic during a create / run / drop history of several runtimes: {}", e.lines().next().unwrap_or("")),
                    )),
                    Ok(()) => Ok(crate::mem::live()),
                }
            };
            if violations.is_empty()
                && let Some(v) = leak_check(&mut one, "this interleaved history of creating, running and dropping up to four runtimes is repeated")
            {
                violations.push(v);
            }
            result.counters.insert("f8_life_history_ops".into(), *ops as u64 * 6);
            Evaluated {
                result,
                judgement: Judgement {
                    violations,
                    inconclusive: false,
                },
            }
        }
        Mode::Completeness => {
            let mut opts = spec.opts.clone();
            opts.completeness_probe = true;
            let result = run_once(mk, src, &opts);
            let mut judgement = judge(w, reference, &result, spec.liveness_due);
            if judgement.violations.is_empty() && !judgement.inconclusive {
                let mut ref_opts = opts.clone();
                ref_opts.selfcheck_every = 0;
                let r2 = run_once(
                    mk,
                    Source::Seed {
                        rng: Rng::new(0),
                        p: Personality::reference(w.neutral_budget()),
                    },
                    &ref_opts,
                );
                // with tasks only main's heap at completion is comparable (the other tasks are
                // wherever the schedule left them)
                let comparable = if w.has_tasks {
                    matches!(result.outcome, Outcome::Done) && matches!(r2.outcome, Outcome::Done)
                } else {
                    result.outcome == r2.outcome || (matches!(result.outcome, Outcome::Dropped) && matches!(r2.outcome, Outcome::Dropped))
                };
                if comparable
                    && let (Some(a), Some(b)) = (&result.live_after_full_gc, &r2.live_after_full_gc)
                {
                    let (x, y) = if w.has_tasks { (&a[..1.min(a.len())], &b[..1.min(b.len())]) } else { (&a[..], &b[..]) };
                    if x != y {
                        judgement.violations.push(mem_violation(
                            "mem:unreachable-survives-full-collection",
                            format!(
                                "after two quiescent full collections {x:?} objects are live per thread, but {y:?} after the collector-off run to the same point ({} instructions)",
                                result.steps
                            ),
                        ));
                    }
                }
            }
            Evaluated { result, judgement }
        }
        Mode::Bounded { n } => {
            let mut small = spec.opts.clone();
            small.next_int_base = *n;
            let mut big = spec.opts.clone();
            big.next_int_base = 4 * *n;
            // one unmeasured run first, so that tables and buffers of the harness and of the
            // hook module have reached their working capacity before anything is measured
            drop(run_once(mk, src.clone(), &small));
            let base = crate::mem::live();
            crate::mem::reset_peak();
            let r1 = run_once(mk, src.clone(), &small);
            let proc1 = crate::mem::peak().saturating_sub(base);
            let (h1, steps1, ok1) = (r1.peak_heap, r1.steps, matches!(r1.outcome, Outcome::Done) && r1.violations.is_empty());
            let v1 = r1.violations.clone();
            drop(r1);
            let base = crate::mem::live();
            crate::mem::reset_peak();
            let result = run_once(mk, src, &big);
            let proc2 = crate::mem::peak().saturating_sub(base);
            let mut violations = v1;
            violations.extend(result.violations.clone());
            let mut inconclusive = false;
            if violations.is_empty() {
                if ok1 && matches!(result.outcome, Outcome::Done) {
                    let h2 = result.peak_heap;
                    if h2 as f64 > 1.25 * h1 as f64 + 4096.0 {
                        violations.push(mem_violation(
                            "mem:heap-grows-with-work",
                            format!(
                                "peak VM heap {h2} bytes (per thread {:?}) with size parameter {} vs {h1} bytes with {n} ({} vs {steps1} instructions) although the reachable data is constant",
                                result.peak_heap_threads, 4 * n, result.steps
                            ),
                        ));
                    } else if proc2 as f64 > 1.5 * proc1 as f64 + 262_144.0 {
                        violations.push(mem_violation(
                            "mem:process-memory-grows-with-work",
                            format!(
                                "peak process memory {proc2} bytes with size parameter {} vs {proc1} bytes with {n} although the reachable data is constant",
                                4 * n
                            ),
                        ));
                    }
                } else {
                    inconclusive = true;
                }
            }
            Evaluated {
                result,
                judgement: Judgement {
                    violations,
                    inconclusive,
                },
            }
        }
    }
}
