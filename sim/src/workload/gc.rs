//! W-gc: mutator programs dense in the instructions the collector cares about, in particular
//! move patterns (an object taken out of one container and stored into another, often inside a
//! callee whose frame then disappears). No model: the oracles are the collector-off reference
//! run, the quarantine and the reachability self-check (C06; also C01 / C07 mixtures).

use super::Workload;
use crate::rng::Rng;

const PRELUDE: &str = r#"use simhost

type Box = {
    item: string
    more: array<string>
}

type Shape =
    | Leaf(string)
    | Node(array<string>, string)

fn fresh(tag: int, n: int) -> array<string> {
    let a = []
    for k in n {
        a.push("s" .. tag .. "_" .. k)
    }
    a
}
fn join(a: array<string>) -> string {
    var s = ""
    for x in a {
        s = s .. x .. ","
    }
    s
}
fn move_idx(dst: array<string>, j: int, src: array<string>) {
    dst[j] = src.pop()
}
fn move_push(dst: array<string>, src: array<string>) {
    dst.push(src.pop())
}
fn move_field(b: Box, src: array<string>) {
    b.item = src.pop()
}
fn take_and_replace(a: array<string>, k: int, v: string) -> string {
    let x = a[k]
    a[k] = v
    x
}
fn describe(s: Shape) -> string {
    match s {
        .Leaf(x) -> "L" .. x,
        .Node(xs, y) -> "N" .. join(xs) .. y
    }
}
fn opt_str(o: option<string>) -> string {
    match o {
        .some(s) -> s,
        .none -> "-"
    }
}
fn make_fn(prefix: string, xs: array<string>) {
    (i: int) -> prefix .. xs.len() .. "/" .. i
}
fn clone_tail(a: array<string>) -> string {
    let c = a.clone()
    c.push("z")
    join(c)
}
fn juggle(a: array<string>, depth: int) {
    if depth > 0 and a.len() > 0 {
        let x = a.pop()
        work(2)
        juggle(a, depth - 1)
        a.push(x)
    }
}
fn deep(n: int, a: array<string>, carry: string) -> int {
    // many frames, each holding locals that refer to heap objects, while the innermost allocates
    let mine = "f" .. n
    let seen = a.len() + n
    if n == 0 {
        work(3)
        seen
    } else {
        let below = deep(n - 1, a, mine)
        if mine == carry { below } else { below + seen - seen }
    }
}
fn consume(x: string, ys: array<string>) -> string {
    x .. ys.len()
}
fn work(n: int) -> int {
    var s = 0
    let junk = []
    for k in n {
        junk.push("j" .. k)
        s = s + k
    }
    s
}

"#;

fn stmt(rng: &mut Rng, c: &mut u64, small: bool) -> String {
    let names = ["a0", "a1", "a2"];
    let ai = rng.below(3) as usize;
    let mut bi = rng.below(3) as usize;
    if bi == ai {
        bi = (bi + 1) % 3;
    }
    let (a, b) = (names[ai], names[bi]);
    let k = rng.below(3);
    *c += 1;
    let n = if small { rng.range(1, 3) } else { rng.range(2, 6) };
    let cc = *c;
    match rng.below(54) {
        // an operand stack several hundred slots deep
        52 | 53 => format!("acc = acc .. deep({}, {a}, \"d\")", if small { rng.range(20, 45) } else { rng.range(30, 140) }),
        // a value that lives only in the locals of nested call frames while callees allocate
        48 | 49 => format!("juggle({a}, {})", k + 1),
        // ... or only on the operand stack while a later argument is being evaluated
        50 | 51 => format!("if {a}.len() > 0 {{ acc = acc .. consume({a}.pop(), fresh({cc}, 3)) }}"),
        // values held only in a local variable / on the operand stack after leaving their container
        40 | 41 => format!("if {a}.len() > 0 {{ s0 = {a}.pop() }}"),
        42 | 43 => "if nest.len() > 1 {\n    if nest[nest.len() - 1].len() > 0 { s1 = nest.pop().pop() }\n}".to_string(),
        44 => format!("if {a}.len() > {k} {{\n    s1 = {a}[{k}]\n    {a}[{k}] = \"w\" .. {cc}\n}}"),
        45 => "acc = acc .. s0 .. \"/\" .. s1".to_string(),
        46 => format!("if nest.len() > 1 {{\n    let inner = nest.pop()\n    if inner.len() > 0 {{ s0 = inner.pop() }}\n    {b}.push(s0 .. \"~\")\n}}"),
        47 => format!("if bx.more.len() > 0 {{ s1 = bx.more.pop() }}\nbx = Box(s1, fresh({cc}, 2))"),
        0 | 1 => format!("{a}.push(\"p\" .. {cc})"),
        2 | 3 => format!("if {b}.len() > 0 {{ {a}.push({b}.pop()) }}"),
        4 | 5 => format!("if {b}.len() > 0 and {a}.len() > {k} {{ {a}[{k}] = {b}.pop() }}"),
        6 | 7 => format!("if {b}.len() > 0 and {a}.len() > {k} {{ move_idx({a}, {k}, {b}) }}"),
        8 | 9 => format!("if {b}.len() > 0 {{ move_push({a}, {b}) }}"),
        10 => format!("if {b}.len() > 0 {{ move_field(bx, {b}) }}"),
        11 => format!("if {b}.len() > 0 {{ bx.item = {b}.pop() }}"),
        12 | 13 => format!("if {a}.len() > {k} {{ acc = acc .. take_and_replace({a}, {k}, \"r\" .. {cc}) }}"),
        14 | 15 => format!("{a} = fresh({cc}, {n})"),
        16 => format!("nest.push({a})\n{a} = fresh({cc}, 2)"),
        17 => format!("if nest.len() > 1 {{ {a} = nest.pop() }}"),
        18 => format!("if nest.len() > 0 and {b}.len() > 0 {{ nest[0].push({b}.pop()) }}"),
        19 => format!("if nest.len() > 0 and nest[0].len() > 0 {{ {a}.push(nest[0].pop()) }}"),
        20 => format!("bx = Box(\"b\" .. {cc}, {a})\n{a} = fresh({cc}, 1)"),
        21 => format!("bx.more = fresh({cc}, {n})"),
        22 => format!("if bx.more.len() > 0 {{ {a}.push(bx.more.pop()) }}"),
        23 => format!("if {b}.len() > 0 and bx.more.len() > {k} {{ move_idx(bx.more, {k}, {b}) }}"),
        24 => format!("sh = Shape.Node({a}, \"n\" .. {cc})\n{a} = fresh({cc}, 2)"),
        25 => format!("sh = Shape.Leaf(\"l\" .. {cc})"),
        26 => "acc = acc .. describe(sh)".to_string(),
        27 => format!("if {a}.len() > 0 {{ op = option.some({a}.pop()) }}"),
        28 => "acc = acc .. opt_str(op)\nop = option.none".to_string(),
        29 => format!("f = make_fn(\"q\" .. {cc}, {a})"),
        30 => format!("acc = acc .. f({cc})"),
        31 => format!("for x in {a} {{\n    acc = acc .. x\n}}"),
        32 => format!("for x in {a} {{\n    {b}.push(x .. \"!\")\n}}\nif {b}.len() > 12 {{ {b} = fresh({cc}, 1) }}"),
        33 => format!("acc = acc .. join({a})"),
        34 => format!("acc = acc .. clone_tail({a})"),
        35 => format!("work({})", if small { rng.range(1, 4) } else { rng.range(3, 25) }),
        36 => format!("if {a}.len() > 1 {{ acc = acc .. ({a}[0] < {a}[1]) .. ({a}[0] == {a}[1]) }}"),
        37 => format!("if {a}.len() > 1 {{ {a}.swap(0, {a}.len() - 1) }}"),
        38 => format!("if {a}.len() > 0 {{ {a}.remove(0) }}"),
        _ => {
            let tag = 100 + cc;
            format!("obs({tag}, acc)\nacc = \"\"")
        }
    }
}

fn indent(s: &str) -> String {
    s.lines().map(|l| format!("    {l}\n")).collect()
}

pub fn generate(rng: &mut Rng, small: bool) -> Workload {
    let mut src = String::from(PRELUDE);
    src.push_str(&format!("var a0 = fresh(0, {})\n", if small { 2 } else { 4 }));
    src.push_str(&format!("var a1 = fresh(1, {})\n", if small { 1 } else { 3 }));
    src.push_str("var a2: array<string> = []\n");
    src.push_str("var nest: array<array<string>> = [fresh(7, 2), fresh(6, 1), fresh(5, 2)]\n");
    src.push_str("var bx = Box(\"init\", fresh(8, 2))\n");
    src.push_str("var sh = Shape.Leaf(\"l\" .. 0)\n");
    src.push_str("var op: option<string> = option.none\n");
    src.push_str("var f = make_fn(\"p\", a0)\n");
    src.push_str("var acc = \"\"\n");
    src.push_str("var s0 = \"\"\nvar s1 = \"\"\n");
    let mut c = 0u64;
    let n_top = if small { rng.range(3, 7) } else { rng.range(8, 30) };
    let mut n_stmts = 0;
    for _ in 0..n_top {
        if !small && rng.chance(1, 3) {
            // a loop over a block of statements
            let reps = rng.range(2, 6);
            let len = rng.range(2, 6);
            let mut body = String::new();
            for _ in 0..len {
                body.push_str(&stmt(rng, &mut c, small));
                body.push('\n');
                n_stmts += 1;
            }
            src.push_str(&format!("for rep in {reps} {{\n{}}}\n", indent(&body)));
        } else {
            src.push_str(&stmt(rng, &mut c, small));
            src.push('\n');
            n_stmts += 1;
        }
    }
    src.push_str("obs(4, s0 .. \"|\" .. s1)\n");
    src.push_str("obs(1, acc .. \"|\" .. join(a0) .. \"|\" .. join(a1) .. \"|\" .. join(a2))\n");
    src.push_str("obs(2, bx.item .. \"|\" .. join(bx.more) .. \"|\" .. describe(sh) .. \"|\" .. opt_str(op) .. \"|\" .. f(0))\n");
    src.push_str("var total = 0\nfor row in nest {\n    total = total + row.len()\n}\nobs(3, \"\" .. nest.len() .. \":\" .. total)\n");
    src.push_str("a0.len() + a1.len() + a2.len()\n");
    Workload::new(
        "gc",
        format!("{} mutator: {n_stmts} statements", if small { "small" } else { "large" }),
        src,
    )
}
