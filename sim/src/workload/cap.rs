//! W-cap: a task captures values of each capturable kind; both sides mutate their view in both
//! orders, separated by stall points, and report what they see. The generator's model says what
//! each side must see if (and only if) every captured value was deep-copied at spawn (C08).

use super::tytree::{Gen, Ty, Val};
use super::{Projection, Workload};
use crate::rng::Rng;

#[derive(Clone, Debug)]
enum Model {
    ArrInt(Vec<i64>),
    ArrStr(Vec<String>),
    Nested(Vec<Vec<i64>>),
    Rec { name: String, vals: Vec<i64> },
    Tup(i64, Vec<String>),
    Node(Vec<String>, String),
    Str(String),
    Closure(Vec<i64>),
    /// a closure (which captured an array) held in a slot of an array (0), a struct next to an
    /// int (1) or a tuple next to an int (2): copying the container must copy the closure and
    /// what it captured
    ClosureBox(Vec<i64>, u8),
    OptArr(Vec<i64>),
    Int(i64),
    /// array<Rec>: (name, vals) per element - three levels deep
    ArrRec(Vec<(String, Vec<i64>)>),
    /// struct containing a struct containing an array
    Outer { tag: String, name: String, vals: Vec<i64> },
    /// struct holding a channel next to ordinary data: the struct is copied, the channel inside
    /// it must keep referring to the same queue
    Port { tag: String },
    /// a random shape from the type algebra (arrays, options, tuples, structs, enums nested up
    /// to three levels)
    Tree { ty: Ty, val: Val, init: String, show_fn: String },
}

const HELPERS: &str = r#"use simhost

type Rec = {
    name: string
    vals: array<int>
}

type Shape =
    | Leaf(string)
    | Node(array<string>, string)

type Outer = {
    tag: string
    inner: Rec
}

type Port = {
    tag: string
    c: channel<int>
}

fn ji(a: array<int>) -> string {
    var s = ""
    for x in a {
        s = s .. x .. ","
    }
    s
}
fn js(a: array<string>) -> string {
    var s = ""
    for x in a {
        s = s .. x .. ","
    }
    s
}
fn jn(a: array<array<int>>) -> string {
    var s = ""
    for row in a {
        s = s .. "<" .. ji(row) .. ">"
    }
    s
}
fn show_rec(r: Rec) -> string {
    r.name .. ":" .. ji(r.vals)
}
fn show_recs(rs: array<Rec>) -> string {
    var s = ""
    for r in rs {
        s = s .. "[" .. show_rec(r) .. "]"
    }
    s
}
fn show_outer(o: Outer) -> string {
    o.tag .. "/" .. show_rec(o.inner)
}
fn show_tup(t: (int, array<string>)) -> string {
    let (n, xs) = t
    "" .. n .. ":" .. js(xs)
}
fn tup_push(t: (int, array<string>), s: string) {
    let (n, xs) = t
    xs.push(s)
}
fn show_shape(s: Shape) -> string {
    match s {
        .Leaf(x) -> "L" .. x,
        .Node(xs, y) -> "N" .. js(xs) .. y
    }
}
fn shape_push(s: Shape, x: string) {
    match s {
        .Leaf(_) -> {},
        .Node(xs, _) -> xs.push(x)
    }
}
fn show_opt(o: option<array<int>>) -> string {
    match o {
        .some(a) -> "some:" .. ji(a),
        .none -> "none"
    }
}
fn opt_push(o: option<array<int>>, x: int) {
    match o {
        .some(a) -> a.push(x),
        .none -> {}
    }
}
fn counter(a: array<int>) {
    (i: int) -> a.len() + i
}
type Handlers = {
    on_event: int -> int
    weight: int
}
fn call_arr(fs: array<int -> int>) -> int {
    let f = fs[0]
    f(0)
}
fn call_rec(h: Handlers) -> int {
    let f = h.on_event
    f(0) + h.weight - 7
}
fn call_tup(t: (int -> int, int)) -> int {
    let (f, w) = t
    f(0) + w - 7
}
fn work(n: int) -> int {
    var s = 0
    let junk = []
    for k in n {
        junk.push("j" .. k)
        s = s + k
    }
    s
}

"#;

fn ji(a: &[i64]) -> String {
    a.iter().map(|x| format!("{x},")).collect()
}
fn js(a: &[String]) -> String {
    a.iter().map(|x| format!("{x},")).collect()
}

impl Model {
    fn fresh(rng: &mut Rng, g: &mut Gen) -> Model {
        match rng.below(25) {
            22..=24 => Model::ClosureBox(vec![4, 5], rng.below(3) as u8),
            20 | 21 => Model::Port { tag: "p1".into() },
            12..=19 => {
                let depth = rng.range(1, 3) as u32;
                let ty = g.mutable_ty(rng, depth);
                let (val, init) = g.value(rng, &ty);
                let show_fn = g.show_fn(&ty);
                Model::Tree { ty, val, init, show_fn }
            }
            10 => Model::ArrRec(vec![("r0".into(), vec![1]), ("q1".into(), vec![2, 3])]),
            11 => Model::Outer {
                tag: "o1".into(),
                name: "i2".into(),
                vals: vec![9],
            },
            0 => Model::ArrInt(vec![1, 2, 3]),
            1 => Model::ArrStr(vec!["a1".into(), "b2".into()]),
            2 => Model::Nested(vec![vec![1], vec![2, 3]]),
            3 => Model::Rec {
                name: "r0".into(),
                vals: vec![7, 8],
            },
            4 => Model::Tup(5, vec!["t1".into()]),
            5 => Model::Node(vec!["n1".into(), "n2".into()], "tail".into()),
            6 => Model::Str("s1".into()),
            7 => Model::Closure(vec![4, 5]),
            8 => Model::OptArr(vec![6]),
            _ => Model::Int(41),
        }
    }

    fn kind(&self) -> &'static str {
        match self {
            Model::ArrInt(_) => "array<int>",
            Model::ArrStr(_) => "array<string>",
            Model::Nested(_) => "array<array<int>>",
            Model::Rec { .. } => "struct{string,array<int>}",
            Model::Tup(..) => "(int,array<string>)",
            Model::Node(..) => "enum-with-array-payload",
            Model::Str(_) => "string",
            Model::Closure(_) => "closure-capturing-array",
            Model::ClosureBox(_, 0) => "array<closure-capturing-array>",
            Model::ClosureBox(_, 1) => "struct{closure-capturing-array,int}",
            Model::ClosureBox(..) => "(closure-capturing-array,int)",
            Model::OptArr(_) => "option<array<int>>",
            Model::Int(_) => "int",
            Model::ArrRec(_) => "array<struct{string,array<int>}>",
            Model::Outer { .. } => "struct{string,struct{string,array<int>}}",
            Model::Tree { .. } => "tree",
            Model::Port { .. } => "struct{string,channel<int>}",
        }
    }

    fn describe(&self) -> String {
        match self {
            Model::Tree { ty, .. } => ty.describe(),
            other => other.kind().to_string(),
        }
    }

    /// declaration(s) binding `v` (and helper names derived from it)
    fn decl(&self, v: &str) -> String {
        match self {
            Model::ArrInt(a) => format!("var {v} = [{}]\n", a.iter().map(|x| x.to_string()).collect::<Vec<_>>().join(", ")),
            Model::ArrStr(a) => format!(
                "var {v} = [{}]\n",
                a.iter().map(|x| format!("\"{}\" .. {}", &x[..1], &x[1..])).collect::<Vec<_>>().join(", ")
            ),
            Model::Nested(a) => format!(
                "var {v} = [{}]\n",
                a.iter()
                    .map(|r| format!("[{}]", r.iter().map(|x| x.to_string()).collect::<Vec<_>>().join(", ")))
                    .collect::<Vec<_>>()
                    .join(", ")
            ),
            Model::Rec { name, vals } => format!(
                "var {v} = Rec(\"{}\" .. {}, [{}])\n",
                &name[..1],
                &name[1..],
                vals.iter().map(|x| x.to_string()).collect::<Vec<_>>().join(", ")
            ),
            Model::Tup(n, xs) => format!(
                "var {v} = ({n}, [{}])\n",
                xs.iter().map(|x| format!("\"{}\" .. {}", &x[..1], &x[1..])).collect::<Vec<_>>().join(", ")
            ),
            Model::Node(xs, y) => format!(
                "var {v} = Shape.Node([{}], \"{y}\")\n",
                xs.iter().map(|x| format!("\"{}\" .. {}", &x[..1], &x[1..])).collect::<Vec<_>>().join(", ")
            ),
            Model::Str(s) => format!("var {v} = \"{}\" .. {}\n", &s[..1], &s[1..]),
            Model::Closure(a) => format!(
                "var {v}_arr = [{}]\nvar {v} = counter({v}_arr)\n",
                a.iter().map(|x| x.to_string()).collect::<Vec<_>>().join(", ")
            ),
            Model::ClosureBox(a, how) => format!(
                "var {v}_arr = [{}]\nvar {v} = {}\n",
                a.iter().map(|x| x.to_string()).collect::<Vec<_>>().join(", "),
                match how {
                    0 => format!("[counter({v}_arr)]"),
                    1 => format!("Handlers(counter({v}_arr), 7)"),
                    _ => format!("(counter({v}_arr), 7)"),
                }
            ),
            Model::OptArr(a) => format!(
                "var {v}: option<array<int>> = option.some([{}])\n",
                a.iter().map(|x| x.to_string()).collect::<Vec<_>>().join(", ")
            ),
            Model::Int(n) => format!("var {v} = {n}\n"),
            Model::ArrRec(rs) => format!(
                "var {v} = [{}]\n",
                rs.iter()
                    .map(|(name, vals)| format!(
                        "Rec(\"{}\" .. {}, [{}])",
                        &name[..1],
                        &name[1..],
                        vals.iter().map(|x| x.to_string()).collect::<Vec<_>>().join(", ")
                    ))
                    .collect::<Vec<_>>()
                    .join(", ")
            ),
            Model::Tree { ty, init, .. } => format!("var {v}: {} = {init}\n", ty.name()),
            Model::Port { tag } => format!(
                "let {v}_c: channel<int> = channel()\nvar {v} = Port(\"{}\" .. {}, {v}_c)\n",
                &tag[..1],
                &tag[1..]
            ),
            Model::Outer { tag, name, vals } => format!(
                "var {v} = Outer(\"{}\" .. {}, Rec(\"{}\" .. {}, [{}]))\n",
                &tag[..1],
                &tag[1..],
                &name[..1],
                &name[1..],
                vals.iter().map(|x| x.to_string()).collect::<Vec<_>>().join(", ")
            ),
        }
    }

    fn show_expr(&self, v: &str) -> String {
        match self {
            Model::ArrInt(_) => format!("ji({v})"),
            Model::ArrStr(_) => format!("js({v})"),
            Model::Nested(_) => format!("jn({v})"),
            Model::Rec { .. } => format!("show_rec({v})"),
            Model::Tup(..) => format!("show_tup({v})"),
            Model::Node(..) => format!("show_shape({v})"),
            Model::Str(_) => v.to_string(),
            Model::Closure(_) => format!("(\"\" .. {v}(0))"),
            Model::ClosureBox(_, 0) => format!("(\"\" .. call_arr({v}))"),
            Model::ClosureBox(_, 1) => format!("(\"\" .. call_rec({v}))"),
            Model::ClosureBox(..) => format!("(\"\" .. call_tup({v}))"),
            Model::OptArr(_) => format!("show_opt({v})"),
            Model::Int(_) => format!("(\"\" .. {v})"),
            Model::ArrRec(_) => format!("show_recs({v})"),
            Model::Outer { .. } => format!("show_outer({v})"),
            Model::Tree { show_fn, .. } => format!("{show_fn}({v})"),
            Model::Port { .. } => format!("{v}.tag"),
        }
    }

    fn show(&self) -> String {
        match self {
            Model::ArrInt(a) => ji(a),
            Model::ArrStr(a) => js(a),
            Model::Nested(a) => a.iter().map(|r| format!("<{}>", ji(r))).collect(),
            Model::Rec { name, vals } => format!("{name}:{}", ji(vals)),
            Model::Tup(n, xs) => format!("{n}:{}", js(xs)),
            Model::Node(xs, y) => format!("N{}{y}", js(xs)),
            Model::Str(s) => s.clone(),
            Model::Closure(a) | Model::ClosureBox(a, _) => a.len().to_string(),
            Model::OptArr(a) => format!("some:{}", ji(a)),
            Model::Int(n) => n.to_string(),
            Model::ArrRec(rs) => rs.iter().map(|(name, vals)| format!("[{name}:{}]", ji(vals))).collect(),
            Model::Outer { tag, name, vals } => format!("{tag}/{name}:{}", ji(vals)),
            Model::Tree { val, .. } => val.show(),
            Model::Port { tag } => tag.clone(),
        }
    }

    /// one mutation through `v`; `in_task`: closures cannot be mutated from inside the task
    /// (the task only holds the closure, not the array it captured)
    fn mutate(&mut self, rng: &mut Rng, g: &mut Gen, v: &str, tag: &str, in_task: bool) -> String {
        let n = rng.range(10, 99) as i64;
        match self {
            Model::Port { tag: t } => {
                *t = format!("{tag}{n}");
                format!("{v}.tag = \"{tag}\" .. {n}\n")
            }
            Model::Tree { ty, val, .. } => match g.mutate_fn(rng, ty, val, tag) {
                Some(f) => format!("{f}({v})\n"),
                None => String::new(),
            },
            Model::ArrInt(a) => {
                if rng.chance(1, 2) && !a.is_empty() {
                    a[0] = n;
                    format!("{v}[0] = {n}\n")
                } else {
                    a.push(n);
                    format!("{v}.push({n})\n")
                }
            }
            Model::ArrStr(a) => {
                let s = format!("{tag}{n}");
                if rng.chance(1, 2) && !a.is_empty() {
                    let i = a.len() - 1;
                    a[i] = s;
                    format!("{v}[{i}] = \"{tag}\" .. {n}\n")
                } else {
                    a.push(s);
                    format!("{v}.push(\"{tag}\" .. {n})\n")
                }
            }
            Model::Nested(a) => match rng.below(3) {
                0 => {
                    a[0].push(n);
                    format!("{v}[0].push({n})\n")
                }
                1 => {
                    a.push(vec![n]);
                    format!("{v}.push([{n}])\n")
                }
                _ => {
                    let i = a.len() - 1;
                    a[i] = vec![n, n];
                    format!("{v}[{i}] = [{n}, {n}]\n")
                }
            },
            Model::Rec { name, vals } => {
                if rng.chance(1, 2) {
                    *name = format!("{tag}{n}");
                    format!("{v}.name = \"{tag}\" .. {n}\n")
                } else {
                    vals.push(n);
                    format!("{v}.vals.push({n})\n")
                }
            }
            Model::Tup(_, xs) => {
                xs.push(format!("{tag}{n}"));
                format!("tup_push({v}, \"{tag}\" .. {n})\n")
            }
            Model::Node(xs, _) => {
                xs.push(format!("{tag}{n}"));
                format!("shape_push({v}, \"{tag}\" .. {n})\n")
            }
            Model::Str(s) => {
                s.push_str(&format!("{tag}{n}"));
                format!("{v} = {v} .. \"{tag}\" .. {n}\n")
            }
            Model::Closure(a) | Model::ClosureBox(a, _) => {
                if in_task {
                    String::new()
                } else {
                    a.push(n);
                    format!("{v}_arr.push({n})\n")
                }
            }
            Model::OptArr(a) => {
                a.push(n);
                format!("opt_push({v}, {n})\n")
            }
            Model::Int(x) => {
                *x += n;
                format!("{v} = {v} + {n}\n")
            }
            Model::ArrRec(rs) => match rng.below(3) {
                0 => {
                    rs[0].1.push(n);
                    format!("{v}[0].vals.push({n})\n")
                }
                1 => {
                    let i = rs.len() - 1;
                    rs[i].0 = format!("{tag}{n}");
                    format!("{v}[{i}].name = \"{tag}\" .. {n}\n")
                }
                _ => {
                    rs.push((format!("{tag}{n}"), vec![n]));
                    format!("{v}.push(Rec(\"{tag}\" .. {n}, [{n}]))\n")
                }
            },
            Model::Outer { tag: t, name, vals } => match rng.below(3) {
                0 => {
                    vals.push(n);
                    format!("{v}.inner.vals.push({n})\n")
                }
                1 => {
                    *name = format!("{tag}{n}");
                    format!("{v}.inner.name = \"{tag}\" .. {n}\n")
                }
                _ => {
                    *t = format!("{tag}{n}");
                    format!("{v}.tag = \"{tag}\" .. {n}\n")
                }
            },
        }
    }
}

pub fn generate(rng: &mut Rng) -> Workload {
    let n_caps = rng.range(1, 4) as usize;
    let mut g = Gen::new();
    let mut src = String::new();
    src.push_str("let go: channel<int> = channel()\n");
    src.push_str("let done: channel<string> = channel()\n");
    let mut models: Vec<Model> = (0..n_caps).map(|_| Model::fresh(rng, &mut g)).collect();
    let names: Vec<String> = (0..n_caps).map(|i| format!("v{i}")).collect();
    for (m, v) in models.iter().zip(&names) {
        src.push_str(&m.decl(v));
    }
    // optionally an immutable second name for one of the captured objects, captured as well.
    //  Rebound: `let w = v; v = y` before the spawn - the two names refer to different objects
    //    when the task starts, and each capture must be a copy of the object its own name refers to.
    //  Shared: `let w = v` only; the task re-binds ITS v (`v = y`) before mutating, after which
    //    its w must still be the snapshot of the object both names referred to at spawn.
    // (What a task sees through two names that still refer to one object when both are mutated
    // is not stated by the property and is not checked.)
    let mut alias: Option<(usize, usize, bool)> = None; // (index of v, index of w, shared)
    let mut names = names;
    if rng.chance(1, 3) {
        let i = rng.below(n_caps as u64) as usize;
        let ok = matches!(
            models[i],
            Model::ArrInt(_)
                | Model::ArrStr(_)
                | Model::Nested(_)
                | Model::Rec { .. }
                | Model::Tup(..)
                | Model::Node(..)
                | Model::OptArr(_)
                | Model::ArrRec(_)
                | Model::Outer { .. }
                | Model::Tree { .. }
        );
        if ok {
            let shared = rng.chance(1, 3);
            src.push_str(&models[i].decl(&format!("y{i}")));
            src.push_str(&format!("let w{i} = v{i}\n"));
            if !shared {
                src.push_str(&format!("v{i} = y{i}\n"));
            }
            models.push(models[i].clone());
            names.push(format!("w{i}"));
            alias = Some((i, n_caps, shared));
        }
    }
    let init_models = models.clone();
    let is_shared_alias = |k: usize| matches!(alias, Some((_, w, true)) if w == k);
    let is_alias = |k: usize| matches!(alias, Some((_, w, _)) if w == k);
    // mutations before the spawn are part of the snapshot
    for (k, (m, v)) in models.iter_mut().zip(&names).enumerate() {
        if rng.chance(1, 2) && !is_shared_alias(k) {
            src.push_str(&m.mutate(rng, &mut g, v, "P", false));
        }
    }
    if let Some((i, w, true)) = alias {
        models[w] = models[i].clone();
    }
    let mut task_models = models.clone();
    let show_all = |ms: &[Model]| -> String {
        names
            .iter()
            .zip(ms)
            .map(|(v, m)| m.show_expr(v))
            .collect::<Vec<_>>()
            .join(" .. \";\" .. ")
    };
    let want_all = |ms: &[Model]| -> String { ms.iter().map(|m| m.show()).collect::<Vec<_>>().join(";") };
    let snapshot = want_all(&models);
    let task_collects = rng.chance(1, 3);
    let main_drops = rng.chance(1, 3);
    let task_first = rng.chance(1, 2);

    src.push_str("task {\n");
    if rng.chance(1, 2) {
        src.push_str("    pause()\n");
    }
    if !task_first {
        // main mutates first: wait for it before even looking
        src.push_str("    go.read()\n");
    }
    src.push_str(&format!("    let before = {}\n", show_all(&task_models)));
    if let Some((i, _, true)) = alias {
        // y was captured too (never mutated by main): the task's v now refers to its copy of y
        src.push_str(&format!("    v{i} = y{i}\n"));
        task_models[i] = init_models[i].clone();
    }
    for (m, v) in task_models.iter_mut().zip(&names) {
        for line in m.mutate(rng, &mut g, v, "T", true).lines() {
            src.push_str(&format!("    {line}\n"));
        }
    }
    for (m, v) in task_models.iter().zip(&names) {
        if let Model::Port { .. } = m {
            src.push_str(&format!("    {v}.c.write(4242)\n"));
        }
    }
    if task_collects {
        src.push_str("    work(40)\n");
    }
    src.push_str("    pause()\n");
    if task_first {
        src.push_str("    go.read()\n");
    }
    src.push_str(&format!(
        "    done.write(before .. \"|\" .. {})\n",
        show_all(&task_models)
    ));
    src.push_str("}\n");
    // optionally a second task capturing the same variables: its copies are independent of the
    // first task's and of the spawner's
    let second = rng.chance(1, 3) && !matches!(alias, Some((_, _, true)));
    let mut second_models = models.clone();
    if second {
        src.push_str("let go2: channel<int> = channel()\nlet done2: channel<string> = channel()\n");
        src.push_str("task {\n");
        if rng.chance(1, 2) {
            src.push_str("    pause()\n");
        }
        src.push_str(&format!("    let before = {}\n", show_all(&second_models)));
        for (m, v) in second_models.iter_mut().zip(&names) {
            for line in m.mutate(rng, &mut g, v, "U", true).lines() {
                src.push_str(&format!("    {line}\n"));
            }
        }
        src.push_str("    go2.read()\n");
        src.push_str(&format!(
            "    done2.write(before .. \"|\" .. {})\n",
            show_all(&second_models)
        ));
        src.push_str("}\n");
    }
    if rng.chance(1, 2) {
        src.push_str("pause()\n");
    }
    for (k, (m, v)) in models.iter_mut().zip(&names).enumerate() {
        if !is_shared_alias(k) {
            src.push_str(&m.mutate(rng, &mut g, v, "M", false));
        }
    }
    if let Some((i, w, true)) = alias {
        models[w] = models[i].clone();
    }
    let main_view = want_all(&models);
    src.push_str(&format!("let main_view = {}\n", show_all(&models)));
    if main_drops {
        // the spawner drops what it captured from and collects while the task still uses its copy
        for (k, (m, v)) in models.iter().zip(&names).enumerate() {
            if is_alias(k) {
                continue; // immutable binding
            }
            let fresh = match m {
                Model::ArrInt(_) => format!("{v} = [0]\n"),
                Model::ArrStr(_) => format!("{v} = [\"z\" .. 0]\n"),
                Model::Nested(_) => format!("{v} = [[0]]\n"),
                Model::Rec { .. } => format!("{v} = Rec(\"z\" .. 0, [0])\n"),
                Model::Tup(..) => format!("{v} = (0, [\"z\" .. 0])\n"),
                Model::Node(..) => format!("{v} = Shape.Leaf(\"z\" .. 0)\n"),
                Model::Str(_) => format!("{v} = \"z\" .. 0\n"),
                Model::Closure(_) => format!("{v}_arr = [0]\n{v} = counter({v}_arr)\n"),
                Model::ClosureBox(_, how) => format!(
                    "{v}_arr = [0]\n{v} = {}\n",
                    match how {
                        0 => format!("[counter({v}_arr)]"),
                        1 => format!("Handlers(counter({v}_arr), 7)"),
                        _ => format!("(counter({v}_arr), 7)"),
                    }
                ),
                Model::OptArr(_) => format!("{v} = option.none\n"),
                Model::Int(_) => format!("{v} = 0\n"),
                Model::ArrRec(_) => format!("{v} = [Rec(\"z\" .. 0, [0])]\n"),
                Model::Outer { .. } => format!("{v} = Outer(\"z\" .. 0, Rec(\"z\" .. 1, [0]))\n"),
                Model::Tree { ty, .. } => {
                    let (_, fresh_expr) = g.value(rng, ty);
                    format!("{v} = {fresh_expr}\n")
                }
                // keeps its channel: main still reads from it below
                Model::Port { .. } => format!("{v}.tag = \"z\" .. 0\n"),
            };
            src.push_str(&fresh);
        }
        src.push_str("work(60)\n");
    }
    src.push_str("pause()\n");
    src.push_str("go.write(1)\n");
    src.push_str("let from_task = done.read()\n");
    src.push_str("obs(0, from_task)\n");
    src.push_str("obs(1, main_view)\n");
    let mut port_reads = vec![];
    for (i, (m, v)) in models.iter().zip(&names).enumerate() {
        if let Model::Port { .. } = m {
            // the task wrote into the channel inside ITS copy of the struct; it must arrive here
            src.push_str(&format!("obs({}, \"\" .. {v}.c.read())\n", 50 + i));
            port_reads.push((50 + i as i64, "4242".to_string()));
        }
    }
    if second {
        src.push_str("go2.write(1)\nobs(2, done2.read())\n");
    }
    src.push_str("2\n");

    let task_after = want_all(&task_models);
    let src = format!("{HELPERS}{}\n{src}", g.decls);
    let mut w = Workload::new(
        "cap",
        format!(
            "captures [{}]{}{}{}",
            models.iter().map(|m| m.describe()).collect::<Vec<_>>().join(", "),
            if task_first { " task-mutates-first" } else { " main-mutates-first" },
            if task_collects { " task-collects" } else { "" },
            if main_drops { " spawner-drops-and-collects" } else { "" }
        ) + if second { " two-tasks" } else { "" }
            + match alias {
                Some((_, _, true)) => " alias-rebound-in-task",
                Some((_, _, false)) => " alias-rebound-before-spawn",
                None => "",
            },
        src,
    );
    w.has_tasks = true;
    w.projection = Projection::AllThreads;
    let mut expected = vec![(0, format!("{snapshot}|{task_after}")), (1, main_view)];
    expected.extend(port_reads);
    if second {
        expected.push((2, format!("{snapshot}|{}", want_all(&second_models))));
    }
    w.expect.main_obs = Some(expected);
    w.expect.final_top = Some("2".into());
    w.expect.drains = true;
    w
}
