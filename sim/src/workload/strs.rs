//! W-str: string comparison and concatenation cases over a structured set of pairs, with Rust's
//! byte-wise comparison and concatenation as the model (C17; also part of the C01/C06/C10 mixtures).

use super::{Workload, lit};
use crate::rng::Rng;

const ALPHABET: &[&str] = &["a", "b", "c", "z", "A", "0", " ", "é", "è", "日", "ß", "~"];

fn random_string(rng: &mut Rng, len: usize) -> String {
    (0..len).map(|_| *rng.pick(ALPHABET)).collect()
}

/// a pair from the structured set
fn pair(rng: &mut Rng, max_len: usize) -> (String, String, &'static str) {
    let len = rng.below(max_len as u64 + 1) as usize;
    match rng.below(9) {
        0 => (String::new(), String::new(), "empty/empty"),
        1 => {
            let s = random_string(rng, len.max(1));
            if rng.chance(1, 2) {
                (String::new(), s, "empty/nonempty")
            } else {
                (s, String::new(), "nonempty/empty")
            }
        }
        2 => {
            let s = random_string(rng, len);
            (s.clone(), s, "equal")
        }
        3 => {
            let s = random_string(rng, len);
            let n = rng.range(1, 4) as usize;
            let ext = random_string(rng, n);
            let t = format!("{s}{ext}");
            if rng.chance(1, 2) {
                (s, t, "prefix/extension")
            } else {
                (t, s, "extension/prefix")
            }
        }
        4 | 5 => {
            // first difference at a chosen position, tails of independent length
            let common = random_string(rng, len);
            let x = *rng.pick(ALPHABET);
            let mut y = *rng.pick(ALPHABET);
            while y == x {
                y = *rng.pick(ALPHABET);
            }
            let (n1, n2) = (rng.below(4) as usize, rng.below(4) as usize);
            let tail1 = random_string(rng, n1);
            let tail2 = random_string(rng, n2);
            (
                format!("{common}{x}{tail1}"),
                format!("{common}{y}{tail2}"),
                "first-difference-at-position",
            )
        }
        6 => {
            // difference inside a multi-byte character
            let common = random_string(rng, len.min(6));
            let (x, y) = *rng.pick(&[("é", "è"), ("é", "e"), ("日", "本"), ("ß", "z"), ("é", "ß")]);
            if rng.chance(1, 2) {
                (format!("{common}{x}"), format!("{common}{y}"), "multibyte-difference")
            } else {
                (format!("{common}{y}"), format!("{common}{x}"), "multibyte-difference")
            }
        }
        _ => {
            let l2 = rng.below(max_len as u64 + 1) as usize;
            (random_string(rng, len), random_string(rng, l2), "random")
        }
    }
}

/// how an operand reaches the instruction
fn operand(rng: &mut Rng, s: &str, decls: &mut String, name: &str) -> (String, &'static str) {
    // split point on a character boundary
    let cuts: Vec<usize> = s.char_indices().map(|(i, _)| i).chain([s.len()]).collect();
    let cut = *rng.pick(&cuts);
    let (a, b) = s.split_at(cut);
    match rng.below(6) {
        5 => {
            // a string materialised by a channel read
            decls.push_str(&format!("    let {name} = via(pipe, heap({}, {}))\n", lit(a), lit(b)));
            (name.to_string(), "read-from-channel")
        }
        0 => (lit(s), "literal"),
        1 => {
            decls.push_str(&format!("    let {name} = {}\n", lit(s)));
            (name.to_string(), "local-constant")
        }
        2 => {
            decls.push_str(&format!("    let {name} = heap({}, {})\n", lit(a), lit(b)));
            (name.to_string(), "local-heap-string")
        }
        3 => {
            decls.push_str(&format!(
                "    let {name}_arr = [{}, heap({}, {}), {}]\n",
                lit("pad"),
                lit(a),
                lit(b),
                lit("pad2")
            ));
            (format!("{name}_arr[1]"), "array-element")
        }
        // a temporary container is the only owner: once popped, only the operand registers of
        // the in-flight instruction refer to the string
        _ => (format!("tmp({}, {}).pop()", lit(a), lit(b)), "popped-temporary"),
    }
}

fn b(x: bool) -> &'static str {
    if x { "true" } else { "false" }
}

pub fn generate(rng: &mut Rng, max_len: usize, max_cases: usize, allow_task: bool) -> Workload {
    let n_cases = rng.range(3, max_cases as u64) as usize;
    let with_task = allow_task && rng.chance(1, 3);
    let mut src = String::from("use simhost\n\n");
    src.push_str("fn heap(a: string, b: string) -> string { a .. b }\n");
    src.push_str("fn tmp(a: string, b: string) -> array<string> { [\"x\", a .. b] }\n");
    src.push_str("fn via(pipe: channel<string>, s: string) -> string {\n    pipe.write(s)\n    pipe.read()\n}\n\n");
    let mut expected: Vec<(i64, String)> = vec![];
    let mut descr = vec![];
    for i in 0..n_cases {
        let (s1, s2, category) = pair(rng, max_len);
        let mut decls = String::new();
        let mut forms = vec![];
        let mut parts = vec![];
        let ops: [(&str, bool); 6] = [
            ("==", s1 == s2),
            ("!=", s1 != s2),
            ("<", s1.as_bytes() < s2.as_bytes()),
            ("<=", s1.as_bytes() <= s2.as_bytes()),
            (">", s1.as_bytes() > s2.as_bytes()),
            (">=", s1.as_bytes() >= s2.as_bytes()),
        ];
        let mut want = String::new();
        for (k, (op, res)) in ops.iter().enumerate() {
            let (x, fx) = operand(rng, &s1, &mut decls, &format!("x{k}"));
            let (y, fy) = operand(rng, &s2, &mut decls, &format!("y{k}"));
            if rng.chance(1, 3) {
                // the same comparison under a prefix `not`
                forms.push(format!("not {fx}{op}{fy}"));
                parts.push(format!("(not ({x} {op} {y}))"));
                want.push_str(b(!*res));
            } else {
                forms.push(format!("{fx}{op}{fy}"));
                parts.push(format!("({x} {op} {y})"));
                want.push_str(b(*res));
            }
        }
        let (x, _) = operand(rng, &s1, &mut decls, "xc");
        let (y, _) = operand(rng, &s2, &mut decls, "yc");
        want.push('|');
        want.push_str(&s1);
        want.push_str(&s2);
        want.push('|');
        // concatenation of values that are turned into strings on the fly: the operand exists only
        // as a temporary (nothing but the in-flight instruction refers to it), and the left
        // operand may be empty
        let n1 = match rng.below(4) {
            0 => 0,
            1 => rng.below(10) as i64,
            2 => 1_000_000 + rng.below(1_000_000) as i64,
            _ => rng.below(100_000) as i64,
        };
        let n2 = rng.below(1000) as i64;
        let (xs, _) = operand(rng, &s1, &mut decls, "xs");
        let stringify = format!("(\"\" .. {n1}) .. \"|\" .. ({n1} .. {n2}) .. \"|\" .. ({xs} .. {n2}) .. \"|\" .. ({n2} .. \"\")");
        want.push_str(&format!("{n1}|{n1}{n2}|{s1}{n2}|{n2}"));
        src.push_str(&format!("fn case_{i}(pipe: channel<string>) -> string {{\n{decls}    \"\" .. {} .. \"|\" .. ({x} .. {y}) .. \"|\" .. {stringify}\n}}\n", parts.join(" .. ")));
        expected.push((i as i64, want));
        descr.push(format!("{category}({},{})", s1.len(), s2.len()));
    }
    src.push('\n');
    src.push_str("let pipe_m: channel<string> = channel()\n");
    if with_task {
        src.push_str("let pipe_t: channel<string> = channel()\n");
        // odd cases run in a second task, concurrently with main's even cases
        src.push_str("let res: channel<string> = channel()\n");
        src.push_str("task {\n");
        for i in (0..n_cases).filter(|i| i % 2 == 1) {
            src.push_str(&format!("    res.write(case_{i}(pipe_t))\n"));
        }
        src.push_str("}\n");
        for i in (0..n_cases).filter(|i| i % 2 == 0) {
            src.push_str(&format!("obs({i}, case_{i}(pipe_m))\n"));
        }
        for i in (0..n_cases).filter(|i| i % 2 == 1) {
            src.push_str(&format!("obs({i}, res.read())\n"));
        }
        let mut reordered = vec![];
        reordered.extend(expected.iter().filter(|(i, _)| i % 2 == 0).cloned());
        reordered.extend(expected.iter().filter(|(i, _)| i % 2 == 1).cloned());
        expected = reordered;
    } else {
        for i in 0..n_cases {
            src.push_str(&format!("obs({i}, case_{i}(pipe_m))\n"));
        }
    }
    src.push_str(&format!("{n_cases}\n"));
    let mut w = Workload::new(
        "str",
        format!("{}{}", if with_task { "two-tasks " } else { "" }, descr.join(" ")),
        src,
    );
    w.has_tasks = with_task;
    w.expect.main_obs = Some(expected);
    w.expect.final_top = Some(n_cases.to_string());
    w.expect.drains = with_task;
    w
}
