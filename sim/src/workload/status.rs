//! W-status: programs whose final value, runtime error (kind and line) and host-call traffic
//! (arguments handed to the host, values the program then sees) are known to the generator
//! (C11; the task-free ones are also C10 part 1 workload).

use super::{Projection, Workload};
use crate::rng::Rng;

const HELPERS: &str = r#"use simhost

fn ji(a: array<int>) -> string {
    var s = ""
    for x in a {
        s = s .. x .. ","
    }
    s
}
fn js(a: array<string>) -> string {
    var s = ""
    for x in a {
        s = s .. x .. ","
    }
    s
}
fn show_opt(o: option<int>) -> string {
    match o {
        .some(i) -> "some:" .. i,
        .none -> "none"
    }
}
fn show_res(r: result<string, int>) -> string {
    match r {
        .ok(s) -> "ok:" .. s,
        .err(n) -> "err:" .. n
    }
}
fn show_enum(e: HEnum) -> string {
    match e {
        .Aa -> "Aa",
        .Bb(n) -> "Bb:" .. n,
        .Cc(s, n) -> "Cc:" .. s .. ":" .. n
    }
}
fn show_mix(t: (int, string, float, bool)) -> string {
    let (a, b, c, d) = t
    "" .. a .. "/" .. b .. "/" .. c .. "/" .. d
}
fn work(n: int) -> int {
    var s = 0
    let junk = []
    for k in n {
        junk.push("j" .. k)
        s = s + k
    }
    s
}
fn chatter(n: int) {
    for i in n {
        let r = echo_int(i)
        pause()
    }
}
fn wait_forever(c: channel<int>) {
    let x = c.read()
    work(x)
}
fn fail_later(d: int) -> int {
    pause()
    100 / d
}

"#;

fn fmt_float(f: f64) -> String {
    // Rust's Display for f64 is what string_from_float produces
    f.to_string()
}

fn lit_float(f: f64) -> String {
    let s = f.to_string();
    if s.contains('.') { s } else { format!("{s}.0") }
}

/// one host call with generator-known arguments; returns (statement, rendered call, observed payload)
fn host_call(rng: &mut Rng, tag: i64) -> (String, Vec<String>, String) {
    // mostly small numbers, sometimes negative or beyond 32 / 53 bits
    let n = match rng.below(8) {
        0 => -(rng.range(1, 900) as i64),
        1 => (1i64 << 40) + rng.below(900) as i64,
        2 => -((1i64 << 53) + 1),
        _ => rng.range(0, 900) as i64,
    };
    let nlit = if n < 0 { format!("(0 - {})", -n) } else { n.to_string() };
    let nlit = nlit.as_str();
    let word = *rng.pick(&["alpha", "b", "", "gamma delta", "z9"]);
    match rng.below(14) {
        0 => (
            format!("obs({tag}, \"\" .. echo_int({nlit}))\n"),
            vec![format!("echo_int({n})")],
            format!("{}", n + 1000),
        ),
        1 => (
            format!("obs({tag}, echo_str(\"{word}\" .. {n}))\n"),
            vec![format!("echo_str({:?})", format!("{word}{n}"))],
            format!("<{word}{n}>"),
        ),
        2 => {
            let f = *rng.pick(&[0.0, 1.5, -2.25, 1024.125, 3.0]);
            (
                format!("obs({tag}, \"\" .. echo_float({}))\n", lit_float(f)),
                vec![format!("echo_float({:016x})", f.to_bits())],
                fmt_float(f + 0.5),
            )
        }
        3 => {
            let b = rng.chance(1, 2);
            (
                format!("obs({tag}, \"\" .. echo_bool({b}))\n"),
                vec![format!("echo_bool({b})")],
                format!("{}", !b),
            )
        }
        4 => {
            let f = *rng.pick(&[0.5, 2.0, -1.25]);
            let b = rng.chance(1, 2);
            (
                format!(
                    "obs({tag}, show_mix(echo_mix({nlit}, \"{word}\" .. {nlit}, {}, {b})))\n",
                    lit_float(f)
                ),
                vec![format!(
                    "echo_mix({n},{:?},{:016x},{b})",
                    format!("{word}{n}"),
                    f.to_bits()
                )],
                format!("{}/{word}{n}x/{}/{}", n + 1, fmt_float(f * 2.0), !b),
            )
        }
        5 => {
            let len = rng.below(4);
            let items: Vec<String> = (0..len).map(|i| format!("e{}", n + i as i64)).collect();
            let src_items: Vec<String> = (0..len).map(|i| format!("\"e\" .. {}", n + i as i64)).collect();
            let decl = if len == 0 {
                "let empty: array<string> = []\n".to_string()
            } else {
                String::new()
            };
            let arg = if len == 0 {
                "empty".to_string()
            } else {
                format!("[{}]", src_items.join(", "))
            };
            let mut back: Vec<String> = items.iter().rev().cloned().collect();
            back.push("#".into());
            (
                format!("{decl}obs({tag}, js(echo_arr({arg})))\n"),
                vec![format!("echo_arr({items:?})")],
                back.iter().map(|e| format!("{e},")).collect(),
            )
        }
        12 | 13 => {
            // two arrays and a scalar: either array may be empty, in any position
            let la = rng.below(3);
            let lb = rng.below(3);
            let a: Vec<i64> = (0..la).map(|i| i as i64 + 1).collect();
            let b: Vec<String> = (0..lb).map(|i| format!("q{i}")).collect();
            let mut decl = String::new();
            let a_arg = if a.is_empty() {
                decl.push_str(&format!("let ea{tag}: array<int> = []\n"));
                format!("ea{tag}")
            } else {
                format!("[{}]", a.iter().map(|x| x.to_string()).collect::<Vec<_>>().join(", "))
            };
            let b_arg = if b.is_empty() {
                decl.push_str(&format!("let eb{tag}: array<string> = []\n"));
                format!("eb{tag}")
            } else {
                format!("[{}]", b.iter().map(|x| format!("\"q\" .. {}", &x[1..])).collect::<Vec<_>>().join(", "))
            };
            let c = rng.below(50) as i64;
            let mut back: Vec<String> = b.iter().rev().cloned().collect();
            back.push(format!("{}:{c}", a.iter().sum::<i64>()));
            (
                format!("{decl}obs({tag}, js(echo_two({a_arg}, {b_arg}, {c})))\n"),
                vec![format!("echo_two({a:?},{b:?},{c})")],
                back.iter().map(|e| format!("{e},")).collect(),
            )
        }
        6 => {
            // rows may be empty, also in the middle
            let n = n.rem_euclid(1000);
            let rows: Vec<Vec<i64>> = (0..rng.range(1, 4)).map(|r| (0..rng.below(3)).map(|c| n + r as i64 * 10 + c as i64).collect()).collect();
            let arg = format!(
                "[{}]",
                rows.iter()
                    .map(|r| format!("[{}]", r.iter().map(|x| x.to_string()).collect::<Vec<_>>().join(", ")))
                    .collect::<Vec<_>>()
                    .join(", ")
            );
            let back: Vec<Vec<i64>> = rows.iter().rev().cloned().collect();
            (
                format!("let rows{tag} = echo_arr2({arg})\nvar acc{tag} = \"\"\nfor row in rows{tag} {{\n    acc{tag} = acc{tag} .. \"<\" .. ji(row) .. \">\"\n}}\nobs({tag}, acc{tag})\n"),
                vec![format!("echo_arr2({rows:?})")],
                back.iter()
                    .map(|r| format!("<{}>", r.iter().map(|x| format!("{x},")).collect::<String>()))
                    .collect(),
            )
        }
        7 => {
            let some = rng.chance(1, 2);
            if some {
                (
                    format!("obs({tag}, show_opt(echo_opt(option.some({nlit}))))\n"),
                    vec![format!("echo_opt(Some({n}))")],
                    "none".to_string(),
                )
            } else {
                (
                    format!("obs({tag}, show_opt(echo_opt(option.none)))\n"),
                    vec!["echo_opt(None)".to_string()],
                    "some:7".to_string(),
                )
            }
        }
        8 => {
            let ok = rng.chance(1, 2);
            if ok {
                (
                    format!("obs({tag}, show_res(echo_res(result.ok(\"{word}\" .. {n}))))\n"),
                    vec![format!("echo_res(Ok({:?}))", format!("{word}{n}"))],
                    format!("err:{}", format!("{word}{n}").len()),
                )
            } else {
                (
                    format!("obs({tag}, show_res(echo_res(result.err({nlit}))))\n"),
                    vec![format!("echo_res(Err({n}))")],
                    format!("ok:e{n}"),
                )
            }
        }
        9 => (
            format!("let rec{tag} = echo_rec(HRec(\"{word}\" .. {n}, {n}))\nobs({tag}, rec{tag}.name .. \":\" .. rec{tag}.n)\n"),
            vec![format!("echo_rec({:?},{n})", format!("{word}{n}"))],
            format!("{word}{n}!:{}", n + 1),
        ),
        10 => match rng.below(3) {
            0 => (
                format!("obs({tag}, show_enum(echo_enum(HEnum.Aa)))\n"),
                vec!["echo_enum(Aa)".to_string()],
                "Bb:1".to_string(),
            ),
            1 => (
                format!("obs({tag}, show_enum(echo_enum(HEnum.Bb({nlit}))))\n"),
                vec![format!("echo_enum(Bb({n}))")],
                format!("Cc:b:{n}"),
            ),
            _ => (
                format!("obs({tag}, show_enum(echo_enum(HEnum.Cc(\"{word}\" .. {n}, {n}))))\n"),
                vec![format!("echo_enum(Cc({:?},{n}))", format!("{word}{n}"))],
                "Aa".to_string(),
            ),
        },
        _ => (
            format!("pause()\nobs({tag}, \"after pause \" .. {n})\n"),
            vec!["pause()".to_string()],
            format!("after pause {n}"),
        ),
    }
}

pub fn generate(rng: &mut Rng, allow_tasks: bool) -> Workload {
    let mut src = String::from(HELPERS);
    let mut calls: Vec<String> = vec![];
    let mut obs: Vec<(i64, String)> = vec![];
    let mut descr = vec![];
    let with_tasks = allow_tasks && rng.chance(1, 2);
    if with_tasks {
        src.push_str("let never: channel<int> = channel()\n");
        for _ in 0..rng.range(1, 2) {
            match rng.below(3) {
                0 => {
                    src.push_str(&format!("task {{\n    chatter({})\n}}\n", rng.range(1, 6)));
                    descr.push("task:host-calls".to_string());
                }
                1 => {
                    src.push_str("task {\n    wait_forever(never)\n}\n");
                    descr.push("task:blocked".to_string());
                }
                _ => {
                    src.push_str("task {\n    fail_later(0)\n}\n");
                    descr.push("task:fails".to_string());
                }
            }
        }
    }
    let n_calls = rng.range(1, 7) as i64;
    for tag in 0..n_calls {
        let (stmt, rendered, seen) = host_call(rng, tag);
        src.push_str(&stmt);
        calls.extend(rendered);
        calls.push(format!("obs({tag},{seen:?})"));
        obs.push((tag, seen));
        if rng.chance(1, 3) {
            src.push_str(&format!("work({})\n", rng.range(3, 30)));
        }
    }
    descr.push(format!("{n_calls} host calls"));
    // ---- ending: a final value, or a runtime error inside nested calls --------------------------
    let mut final_top = None;
    let mut error_prefix = None;
    let mut error_line = None;
    let mut error_file = None;
    let mut extra_files: Vec<(String, String)> = vec![];
    match rng.below(14) {
        9..=11 => {
            // the failing operation's value is not used at all (an expression statement that is
            // not the last one): it must still stop the program
            let (stmt, prefix, what) = match rng.below(4) {
                0 => ("da / db", "error: division by zero", "discarded-div0"),
                1 => ("da % db", "error: division by zero", "discarded-mod0"),
                2 => ("dbig + da", "error: integer overflow/underflow", "discarded-overflow"),
                _ => ("dbig * da", "error: integer overflow/underflow", "discarded-mul-overflow"),
            };
            let a = rng.range(2, 90);
            if rng.chance(1, 2) {
                let line = src.matches('\n').count() as u32 + 4;
                src.push_str(&format!(
                    "let da = {a}\nlet db = da - da\nlet dbig = 9223372036854775807\n{stmt}\nobs(9999, \"not reached\")\n7\n"
                ));
                error_line = Some(line);
            } else {
                let line = src.matches('\n').count() as u32 + 4;
                src.push_str(&format!(
                    "fn inner(da: int) -> int {{\n    let db = da - da\n    let dbig = 9223372036854775807\n    {stmt}\n    da + 1\n}}\nlet r = inner({a})\nobs(9999, \"not reached \" .. r)\n7\n"
                ));
                error_line = Some(line);
            }
            error_prefix = Some(prefix.to_string());
            descr.push(format!("error:{what}"));
        }
        0 => {
            let (a, b) = (rng.range(0, 1000) as i64, rng.range(0, 1000) as i64);
            src.push_str(&format!("let fa = {a}\nlet fb = {b}\nfa * 3 + fb\n"));
            final_top = Some((a * 3 + b).to_string());
            descr.push("final:int".into());
        }
        1 => {
            let f = *rng.pick(&[1.5, 2.25, -0.5, 100.125]);
            src.push_str(&format!("let ff = {}\nff + 2.25\n", lit_float(f)));
            final_top = Some(format!("f{:016x}", (f + 2.25f64).to_bits()));
            descr.push("final:float".into());
        }
        2 => {
            let n = rng.range(0, 10);
            src.push_str(&format!("let fn_ = {n}\nfn_ > 4\n"));
            final_top = Some((n > 4).to_string());
            descr.push("final:bool".into());
        }
        3 => {
            let n = rng.range(0, 100);
            src.push_str(&format!("let fs = \"res\" .. {n}\nfs .. \"!\"\n"));
            final_top = Some(format!("{:?}", format!("res{n}!")));
            descr.push("final:string".into());
        }
        k => {
            // error raised three calls deep
            let (body, prefix, what) = match k {
                4 => ("x / (x - x)", "error: division by zero", "div0"),
                5 => ("[1, 2, 3][x]", "error: indexed past the end of an array", "oob"),
                6 => ("panic(\"boom \" .. x)\n    x", "panic: `boom 41`", "panic"),
                7 => ("9223372036854775807 + x", "error: integer overflow/underflow", "overflow"),
                8 => ("x % (x - x)", "error: division by zero", "mod0"),
                // the smallest int (computed: it has no literal) against -1 held in a variable:
                // which error this is is the implementation's business, that it is one is not
                12 => match rng.below(3) {
                    0 => ("let lo = 0 - 9223372036854775807 - (x - 40)\n    let m1 = 40 - x\n    lo / m1", "error: ", "min-div-minus-one"),
                    1 => ("let lo = 0 - 9223372036854775807 - (x - 40)\n    let m1 = 40 - x\n    lo % m1", "error: ", "min-mod-minus-one"),
                    _ => ("let lo = 0 - 9223372036854775807 - (x - 40)\n    let m1 = 40 - x\n    lo * m1", "error: ", "min-mul-minus-one"),
                },
                _ => match rng.below(3) {
                    0 => ("let lo = 0 - 9223372036854775807 - (x - 40)\n    0 - lo", "error: ", "zero-minus-min"),
                    1 => ("let lo = 0 - 9223372036854775807 - (x - 40)\n    -lo", "error: ", "negate-min"),
                    _ => ("let lo = 0 - 9223372036854775807 - (x - 40)\n    lo - (x - 40)", "error: ", "min-minus-one"),
                },
            };
            // the failing operation is the last line of a multi-line body
            let fail_offset = if k >= 12 { body.matches('\n').count() as u32 } else { 0 };
            let levels = format!(
                "fn level3(x: int) -> int {{\n    {body}\n}}\nfn level2(x: int) -> int {{\n    level3(x) + 1\n}}\nfn level1(x: int) -> int {{\n    level2(x) + 1\n}}\n"
            );
            if rng.chance(1, 3) {
                // the failing functions live in a second file: the innermost frame is there
                extra_files.push(("util.abra".to_string(), format!("// helpers\n{levels}")));
                src = src.replacen("use simhost\n", "use simhost\nuse util\n", 1);
                src.push_str("level1(41)\n");
                error_line = Some(3 + fail_offset);
                error_file = Some("util.abra".to_string());
                descr.push(format!("error:{what}:in-imported-file"));
            } else {
                let line = src.matches('\n').count() as u32 + 2;
                src.push_str(&levels);
                src.push_str("level1(41)\n");
                error_line = Some(line + fail_offset);
                descr.push(format!("error:{what}"));
            }
            error_prefix = Some(prefix.to_string());
        }
    }
    if final_top.is_some() && rng.chance(1, 3) {
        // declarations after the final expression statement do not change what the result is
        match rng.below(3) {
            0 => src.push_str("fn tail_helper(x: int) -> int {\n    x + 1\n}\n"),
            1 => src.push_str("type TailRec = {\n    t: int\n}\n"),
            _ => src.push_str("fn tail_helper(x: int) -> int {\n    x + 1\n}\ntype TailRec = {\n    t: int\n}\nfn tail_other(r: TailRec) -> int {\n    tail_helper(r.t)\n}\n"),
        }
        descr.push("declarations-after-final-expression".into());
    }
    let mut w = Workload::new("status", descr.join(" "), src);
    w.has_tasks = with_tasks;
    w.projection = if with_tasks { Projection::MainOnly } else { Projection::AllThreads };
    w.expect.main_obs = Some(obs);
    w.expect.main_host_calls = Some(calls);
    w.expect.final_top = final_top;
    w.expect.error_prefix = error_prefix;
    w.expect.error_line = error_line;
    w.expect.error_file = error_file;
    w.extra_files = extra_files;
    w
}
