//! W-arr: histories of array operations, each followed by an observation of the whole array,
//! with a Rust `Vec` as the reference list model (C26; also part of the C01/C06/C10 mixtures).

use super::{Workload, lit};
use crate::rng::Rng;

#[derive(Clone, Copy, Debug, PartialEq)]
pub enum Kind {
    Int,
    Str,
    Nested,
}

#[derive(Clone, Debug, PartialEq)]
enum Elem {
    Int(i64),
    Str(String),
    Nested(Vec<i64>),
}

impl Elem {
    fn src(&self) -> String {
        match self {
            Elem::Int(n) => n.to_string(),
            // built at run time so that the element is a heap string, not a constant
            Elem::Str(s) => format!("({} .. {})", lit(&s[..1]), &s[1..]),
            Elem::Nested(v) => format!(
                "[{}]",
                v.iter().map(|x| x.to_string()).collect::<Vec<_>>().join(", ")
            ),
        }
    }
    fn show(&self) -> String {
        match self {
            Elem::Int(n) => n.to_string(),
            Elem::Str(s) => s.clone(),
            Elem::Nested(v) => {
                let mut s = String::from("<");
                for x in v {
                    s.push_str(&x.to_string());
                    s.push('.');
                }
                s.push('>');
                s
            }
        }
    }
}

fn show(a: &[Elem]) -> String {
    let mut s = String::new();
    for e in a {
        s.push_str(&e.show());
        s.push(',');
    }
    s.push('#');
    s.push_str(&a.len().to_string());
    s
}

fn fresh(rng: &mut Rng, kind: Kind, small_domain: bool) -> Elem {
    match kind {
        Kind::Int => Elem::Int(rng.below(if small_domain { 4 } else { 50 }) as i64),
        Kind::Str => {
            let n = rng.below(if small_domain { 4 } else { 40 });
            Elem::Str(format!("s{n}"))
        }
        Kind::Nested => {
            let len = rng.range(1, 3);
            Elem::Nested((0..len).map(|_| rng.below(3) as i64).collect())
        }
    }
}

pub fn generate(rng: &mut Rng, max_ops: usize) -> Workload {
    let kind = *rng.pick(&[Kind::Int, Kind::Str, Kind::Str, Kind::Nested, Kind::Nested]);
    let ty = match kind {
        Kind::Int => "int",
        Kind::Str => "string",
        Kind::Nested => "array<int>",
    };
    let n_ops = rng.range(3, max_ops as u64) as usize;
    let want_error = rng.chance(1, 4);
    let mut src = String::new();
    src.push_str("use simhost\n\n");
    match kind {
        Kind::Int => src.push_str("fn show_e(x: int) -> string { \"\" .. x }\n"),
        Kind::Str => src.push_str("fn show_e(x: string) -> string { x }\n"),
        Kind::Nested => src.push_str(
            "fn show_e(x: array<int>) -> string {\n    var s = \"<\"\n    var i = 0\n    while i < x.len() {\n        s = s .. x[i] .. \".\"\n        i = i + 1\n    }\n    s .. \">\"\n}\n",
        ),
    }
    src.push_str(&format!(
        "fn show(a: array<{ty}>) -> string {{\n    var s = \"\"\n    var i = 0\n    while i < a.len() {{\n        s = s .. show_e(a[i]) .. \",\"\n        i = i + 1\n    }}\n    s .. \"#\" .. a.len()\n}}\n"
    ));
    src.push_str(
        "fn show_opt(o: option<int>) -> string {\n    match o {\n        .some(i) -> \"some:\" .. i,\n        .none -> \"none\"\n    }\n}\n",
    );
    src.push_str(&format!(
        "fn iter_all(a: array<{ty}>) -> string {{\n    var s = \"\"\n    for x in a {{\n        s = s .. show_e(x) .. \";\"\n    }}\n    s\n}}\n\n"
    ));

    let mut a: Vec<Elem> = (0..rng.below(5))
        .map(|_| fresh(rng, kind, true))
        .collect();
    let mut b: Option<Vec<Elem>> = None;
    let init = a.iter().map(|e| e.src()).collect::<Vec<_>>().join(", ");
    src.push_str(&format!("var a: array<{ty}> = [{init}]\n"));
    src.push_str(&format!("var b: array<{ty}> = []\n"));
    let mut obs: Vec<(i64, String)> = vec![];
    let mut descr = vec![format!("{ty}:[{}]", a.len())];
    let mut error: Option<u32> = None;
    let mut tag: i64 = 0;
    let mut did_big = false;
    let line_of = |src: &str| src.matches('\n').count() as u32 + 1;

    for opi in 0..n_ops {
        let last = opi + 1 == n_ops;
        let len = a.len();
        // an erroring operation, if wanted, comes last
        if last && want_error {
            let choice = rng.below(10);
            let bad = len as i64 + rng.below(3) as i64;
            let line = line_of(&src);
            match choice {
                0 => {
                    src.push_str(&format!("obs({tag}, show_e(a[{bad}]))\n"));
                    descr.push(format!("get({bad})!"));
                }
                1 => {
                    let v = fresh(rng, kind, true);
                    src.push_str(&format!("a[{bad}] = {}\n", v.src()));
                    descr.push(format!("set({bad})!"));
                }
                2 => {
                    // empty the array first, then pop once more
                    src.push_str("a.clear()\n");
                    src.push_str("obs(7000, show_e(a.pop()))\n");
                    descr.push("clear;pop!".into());
                    error = Some(line + 1);
                }
                3 => {
                    src.push_str(&format!("a.swap(0, {bad})\n"));
                    descr.push(format!("swap(0,{bad})!"));
                }
                5 => {
                    // the value read is not used at all: the access must still be checked
                    src.push_str(&format!("let bad_i = {bad}\n"));
                    // followed by another statement, so the value really is thrown away
                    src.push_str("a[bad_i]\nobs(9999, \"not reached\")\n");
                    descr.push(format!("discarded-get({bad})!"));
                    error = Some(line + 1);
                }
                6 => {
                    src.push_str(&format!("let bad_i = {bad}\n"));
                    src.push_str("let unused = a[bad_i]\n");
                    descr.push(format!("unused-get({bad})!"));
                    error = Some(line + 1);
                }
                7 => {
                    src.push_str("let neg_i = 0 - 1\n");
                    src.push_str(&format!("obs({tag}, show_e(a[neg_i]))\n"));
                    descr.push("get(-1)!".into());
                    error = Some(line + 1);
                }
                9 => {
                    // index assignment exactly one past the end, index in a local
                    let v = fresh(rng, kind, true);
                    src.push_str(&format!("let at_i = {len}\n"));
                    src.push_str(&format!("a[at_i] = {}\n", v.src()));
                    descr.push(format!("set-local({len})!"));
                    error = Some(line + 1);
                }
                8 => {
                    let v = fresh(rng, kind, true);
                    src.push_str("let neg_i = 0 - 1\n");
                    src.push_str(&format!("a[neg_i] = {}\n", v.src()));
                    descr.push("set(-1)!".into());
                    error = Some(line + 1);
                }
                _ => {
                    src.push_str(&format!("a.remove({bad})\n"));
                    descr.push(format!("remove({bad})!"));
                }
            }
            if error.is_none() {
                // swap / remove fail inside the prelude; get / set / pop fail on this line
                error = Some(if choice <= 1 { line } else { 0 });
            }
            break;
        }
        match rng.below(22) {
            21 if !did_big => {
                // growth far past the capacities the rest of the history reaches: one array
                // pushed to several hundred elements, then a second one (built by pushes, by
                // clone or by filled) past a hundred; both are probed, not printed
                did_big = true;
                let n1 = rng.range(130, 320) as i64;
                let n2 = rng.range(65, 150) as i64;
                src.push_str(&format!("let big{tag}: array<int> = []\nfor q in {n1} {{\n    big{tag}.push(q)\n}}\n"));
                let (build, len2, first, last, sum): (String, i64, i64, i64, i64) = match rng.below(3) {
                    0 => (
                        format!("let two{tag}: array<int> = []\nfor q in {n2} {{\n    two{tag}.push(q * 2)\n}}\n"),
                        n2,
                        0,
                        (n2 - 1) * 2,
                        n2 * (n2 - 1),
                    ),
                    1 => (
                        format!("let two{tag} = big{tag}.clone()\ntwo{tag}.push(5)\n"),
                        n1 + 1,
                        0,
                        5,
                        n1 * (n1 - 1) / 2 + 5,
                    ),
                    _ => (format!("let two{tag} = array.filled(8, {n2})\n"), n2, 8, 8, 8 * n2),
                };
                src.push_str(&build);
                src.push_str(&format!("var sum{tag} = 0\nfor x in two{tag} {{\n    sum{tag} = sum{tag} + x\n}}\n"));
                src.push_str(&format!(
                    "obs({tag}, \"\" .. big{tag}.len() .. \":\" .. big{tag}[{}] .. \":\" .. two{tag}.len() .. \":\" .. two{tag}[0] .. \":\" .. two{tag}[two{tag}.len() - 1] .. \":\" .. sum{tag})\n",
                    n1 - 1
                ));
                obs.push((tag, format!("{n1}:{}:{len2}:{first}:{last}:{sum}", n1 - 1)));
                tag += 1;
                descr.push(format!("big-growth({n1},{len2})"));
            }
            19 if len < 50 => {
                // grow across several capacity boundaries in one go
                let n = rng.range(5, 20) as i64;
                match kind {
                    Kind::Int => {
                        src.push_str(&format!("for q in {n} {{\n    a.push(q * 3)\n}}\n"));
                        for q in 0..n {
                            a.push(Elem::Int(q * 3));
                        }
                    }
                    Kind::Str => {
                        src.push_str(&format!("for q in {n} {{\n    a.push(\"g\" .. q)\n}}\n"));
                        for q in 0..n {
                            a.push(Elem::Str(format!("g{q}")));
                        }
                    }
                    Kind::Nested => {
                        src.push_str(&format!("for q in {n} {{\n    a.push([q, 1])\n}}\n"));
                        for q in 0..n {
                            a.push(Elem::Nested(vec![q, 1]));
                        }
                    }
                }
                descr.push(format!("push-many({n})"));
            }
            20 if len > 8 => {
                // shrink by popping most of it, observing each popped element
                let n = len - rng.below(4) as usize;
                src.push_str(&format!("var popped{tag} = \"\"\nfor q in {n} {{\n    popped{tag} = popped{tag} .. show_e(a.pop()) .. \";\"\n}}\nobs({tag}, popped{tag})\n"));
                let mut want = String::new();
                for _ in 0..n {
                    want.push_str(&a.pop().unwrap().show());
                    want.push(';');
                }
                obs.push((tag, want));
                tag += 1;
                descr.push(format!("pop-many({n})"));
            }
            16 | 17 if b.as_ref().is_some_and(|bb| !bb.is_empty()) => {
                // move an element out of `b` into `a` (the element changes container)
                let bb = b.as_mut().unwrap();
                let v = bb.pop().unwrap();
                if len > 0 && rng.chance(1, 2) {
                    let i = rng.below(len as u64) as usize;
                    src.push_str(&format!("a[{i}] = b.pop()\n"));
                    a[i] = v;
                    descr.push(format!("move-set({i})"));
                } else {
                    src.push_str("a.push(b.pop())\n");
                    a.push(v);
                    descr.push("move-push".into());
                }
            }
            18 if len > 0 && b.is_some() => {
                // ... and the other way round
                let v = a.pop().unwrap();
                src.push_str("b.push(a.pop())\n");
                b.as_mut().unwrap().push(v);
                descr.push("move-push-back".into());
            }
            0 => {
                // literal
                a = (0..rng.below(5)).map(|_| fresh(rng, kind, true)).collect();
                let init = a.iter().map(|e| e.src()).collect::<Vec<_>>().join(", ");
                src.push_str(&format!("a = [{init}]\n"));
                descr.push(format!("lit({})", a.len()));
            }
            1 if len > 0 => {
                let i = rng.below(len as u64) as usize;
                src.push_str(&format!("obs({tag}, show_e(a[{i}]))\n"));
                obs.push((tag, a[i].show()));
                tag += 1;
                descr.push(format!("get({i})"));
            }
            2 if len > 0 => {
                let i = rng.below(len as u64) as usize;
                let v = fresh(rng, kind, false);
                src.push_str(&format!("a[{i}] = {}\n", v.src()));
                a[i] = v;
                descr.push(format!("set({i})"));
            }
            3 | 4 | 5 => {
                let v = fresh(rng, kind, false);
                src.push_str(&format!("a.push({})\n", v.src()));
                a.push(v);
                descr.push("push".into());
            }
            6 | 7 if len > 0 => {
                src.push_str(&format!("obs({tag}, show_e(a.pop()))\n"));
                let v = a.pop().unwrap();
                obs.push((tag, v.show()));
                tag += 1;
                descr.push("pop".into());
            }
            8 if len > 0 && rng.chance(1, 3) => {
                // an in-range read whose value is discarded changes nothing
                let i = rng.below(len as u64) as usize;
                src.push_str(&format!("let keep_i{tag} = {i}\na[keep_i{tag}]\n"));
                descr.push(format!("discarded-get({i})"));
            }
            8 => {
                src.push_str(&format!(
                    "obs({tag}, \"\" .. a.len() .. a.is_empty())\n"
                ));
                obs.push((tag, format!("{}{}", len, len == 0)));
                tag += 1;
                descr.push("len".into());
            }
            9 if len > 1 => {
                let i = rng.below(len as u64) as usize;
                let j = rng.below(len as u64) as usize;
                src.push_str(&format!("a.swap({i}, {j})\n"));
                a.swap(i, j);
                descr.push(format!("swap({i},{j})"));
            }
            10 if len > 0 => {
                let i = rng.below(len as u64) as usize;
                src.push_str(&format!("a.remove({i})\n"));
                // as the prelude defines it: swap with the last element, then pop
                let l = a.len() - 1;
                a.swap(i, l);
                a.pop();
                descr.push(format!("remove({i})"));
            }
            11 if rng.chance(1, 3) => {
                src.push_str("a.clear()\n");
                a.clear();
                descr.push("clear".into());
            }
            12 => {
                let v = if len > 0 && rng.chance(2, 3) {
                    a[rng.below(len as u64) as usize].clone()
                } else {
                    fresh(rng, kind, true)
                };
                src.push_str(&format!(
                    "obs({tag}, show_opt(a.find({})) .. a.contains({}))\n",
                    v.src(),
                    v.src()
                ));
                let found = a.iter().position(|e| *e == v);
                let shown = match found {
                    Some(i) => format!("some:{i}true"),
                    None => "nonefalse".to_string(),
                };
                obs.push((tag, shown));
                tag += 1;
                descr.push("find".into());
            }
            13 => {
                let v = fresh(rng, kind, true);
                let n = rng.below(5) as usize;
                if kind == Kind::Nested && n >= 1 && rng.chance(2, 3) {
                    // the template stays in a variable: every slot must be a copy independent of
                    // it and of every other slot
                    src.push_str(&format!("let tpl{tag} = {}\n", v.src()));
                    src.push_str(&format!("a = array.filled(tpl{tag}, {n})\n"));
                    a = vec![v.clone(); n];
                    src.push_str(&format!("tpl{tag}.push(66)\n"));
                    let last = n - 1;
                    src.push_str(&format!("a[{last}].push(55)\n"));
                    if let Elem::Nested(inner) = &mut a[last] {
                        inner.push(55);
                    }
                    let mut t = v.clone();
                    if let Elem::Nested(inner) = &mut t {
                        inner.push(66);
                    }
                    src.push_str(&format!("obs({}, show_e(tpl{tag}))\n", 3000 + tag));
                    obs.push((3000 + tag, t.show()));
                } else {
                    src.push_str(&format!("a = array.filled({}, {n})\n", v.src()));
                    a = vec![v; n];
                }
                if kind == Kind::Nested && n >= 2 {
                    // the copies must be independent of each other
                    src.push_str("a[0].push(77)\n");
                    if let Elem::Nested(inner) = &mut a[0] {
                        inner.push(77);
                    }
                }
                descr.push(format!("filled({n})"));
            }
            14 => {
                // clone, then mutate both sides; `b` is observed from now on
                src.push_str("b = a.clone()\n");
                let mut copy = a.clone();
                let v = fresh(rng, kind, false);
                src.push_str(&format!("b.push({})\n", v.src()));
                copy.push(v);
                if !a.is_empty() {
                    let w = fresh(rng, kind, false);
                    src.push_str(&format!("a[0] = {}\n", w.src()));
                    a[0] = w;
                }
                if kind == Kind::Nested && copy.len() >= 2 {
                    src.push_str("b[0].push(55)\n");
                    if let Elem::Nested(inner) = &mut copy[0] {
                        inner.push(55);
                    }
                }
                b = Some(copy);
                descr.push("clone".into());
            }
            15 if len < 40 && rng.chance(1, 2) => {
                // iteration over an array whose length changes in the loop body: the loop walks
                // the live array by position (elements pushed during the loop are visited,
                // the loop ends when the position reaches the current length). The body never
                // shrinks the array below the position already reached.
                let grows = rng.chance(1, 2);
                let limit = len + rng.range(1, 3) as usize;
                let v = fresh(rng, kind, false);
                src.push_str(&format!("var seen{tag} = \"\"\nvar k{tag} = 0\nfor x in a {{\n    k{tag} = k{tag} + 1\n    seen{tag} = seen{tag} .. show_e(x) .. \";\"\n"));
                if grows {
                    src.push_str(&format!("    if a.len() < {limit} {{ a.push({}) }}\n", v.src()));
                } else {
                    src.push_str(&format!("    if a.len() > k{tag} {{ a.pop() }}\n"));
                }
                src.push_str(&format!("}}\nobs({tag}, seen{tag} .. k{tag})\n"));
                let mut seen = String::new();
                let mut i = 0;
                while i != a.len() {
                    seen.push_str(&a[i].show());
                    seen.push(';');
                    i += 1;
                    if grows {
                        if a.len() < limit {
                            a.push(v.clone());
                        }
                    } else if a.len() > i {
                        a.pop();
                    }
                }
                obs.push((tag, format!("{seen}{i}")));
                tag += 1;
                descr.push(if grows { "iter-while-pushing".into() } else { "iter-while-popping".into() });
            }
            15 => {
                src.push_str(&format!("obs({tag}, iter_all(a))\n"));
                let mut s = String::new();
                for e in &a {
                    s.push_str(&e.show());
                    s.push(';');
                }
                obs.push((tag, s));
                tag += 1;
                descr.push("iter".into());
            }
            _ => {
                let v = fresh(rng, kind, false);
                src.push_str(&format!("a.push({})\n", v.src()));
                a.push(v);
                descr.push("push".into());
            }
        }
        src.push_str(&format!("obs({}, show(a))\n", 1000 + tag));
        obs.push((1000 + tag, show(&a)));
        if let Some(bb) = &b {
            src.push_str(&format!("obs({}, show(b))\n", 2000 + tag));
            obs.push((2000 + tag, show(bb)));
        }
        tag += 1;
    }
    if error.is_none() {
        src.push_str("a.len()\n");
    }
    let mut w = Workload::new("arr", descr.join(" "), src);
    w.expect.main_obs = Some(obs);
    if let Some(line) = error {
        w.expect.error_prefix = Some("error: indexed past the end of an array".into());
        if line > 0 {
            w.expect.error_line = Some(line);
        }
    } else {
        w.expect.final_top = Some(a.len().to_string());
    }
    w
}
