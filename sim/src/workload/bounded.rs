//! W-bounded: programs whose reachable data stays constant by construction while they allocate
//! N times as much; N comes from the host (`next_int()`), so the same compiled program is run at
//! N and at 4N and its peak memory compared (C07).

use super::{Projection, Workload};
use crate::rng::Rng;

const HELPERS: &str = r#"use simhost

type Box = {
    item: string
    more: array<string>
}

type Shape =
    | Leaf(string)
    | Node(array<string>, string)

fn fresh(tag: int, n: int) -> array<string> {
    let a = []
    for k in n {
        a.push("s" .. tag .. "_" .. k)
    }
    a
}
fn describe(s: Shape) -> string {
    match s {
        .Leaf(x) -> "L" .. x,
        .Node(xs, y) -> "N" .. xs.len() .. y
    }
}
fn make_fn(prefix: string, xs: array<string>) {
    (i: int) -> prefix .. xs.len() .. "/" .. i
}
fn compute(i: int) -> string {
    let a = fresh(i, 6)
    a[0] .. a[5] .. a.len()
}
fn serve(req: channel<array<string>>, resp: channel<string>, n: int) {
    for i in n {
        let x = req.read()
        resp.write(x[0] .. x.len())
    }
}

"#;

pub fn generate(rng: &mut Rng) -> Workload {
    let mut src = String::from(HELPERS);
    src.push_str("let n = next_int()\n");
    let k = rng.range(4, 24);
    let descr;
    let mut has_tasks = false;
    match rng.below(11) {
        9 | 10 => {
            has_tasks = true;
            let big = rng.range(100, 400);
            descr = format!("a short-lived task per iteration, each capturing an array of {big} strings");
            src.push_str(&format!(
                "let big = fresh(0, {big})\nvar i = 0\nwhile i < n {{\n    task {{\n        let seen = big.len()\n    }}\n    i = i + 1\n}}\nobs(0, \"\" .. (i == n))\n"
            ));
        }
        6 => {
            let pushes = rng.range(1, 9);
            descr = format!("a scratch array of {pushes} integer literals per iteration");
            let mut body = String::new();
            for j in 0..pushes {
                body.push_str(&format!("    scratch.push({})\n", j + 1));
            }
            src.push_str(&format!(
                "var total = 0\nfor i in n {{\n    let scratch = []\n{body}    total = total + scratch.len()\n}}\nobs(0, \"\" .. (total == {pushes} * n))\n"
            ));
        }
        7 => {
            let rows = rng.range(2, 5);
            descr = format!("a {rows}-row integer matrix rebuilt per iteration");
            src.push_str(&format!(
                "var total = 0\nfor i in n {{\n    let m: array<array<int>> = []\n    for r in {rows} {{\n        let row = [i]\n        row.push(r)\n        row.push(7)\n        row.push(i + r)\n        row.push(0)\n        m.push(row)\n    }}\n    total = total + m[{}].len()\n}}\nobs(0, \"\" .. (total == 5 * n))\n",
                rows - 1
            ));
        }
        8 => {
            descr = "tuples, floats and string conversions per iteration".to_string();
            src.push_str(
                "var last = \"\"\nfor i in n {\n    let t = (i, \"v\" .. i, [i, 2, 3])\n    let (a, b, c) = t\n    c.push(4)\n    let f = a.to_float() + 0.5\n    last = b .. c.len() .. f\n}\nobs(0, \"\" .. (last == last))\n",
            );
        }
        0 => {
            descr = format!("ring buffer of {k} live strings");
            src.push_str(&format!(
                "let ring = array.filled(\"\", {k})\nfor i in n {{\n    ring[i % {k}] = \"value number \" .. i .. \" padded so that it has some size\"\n}}\nobs(0, ring[0] .. ring.len())\n"
            ));
        }
        1 => {
            let m = rng.range(5, 40);
            descr = format!("string accumulator reset every {m} iterations");
            src.push_str(&format!(
                "var acc = \"\"\nvar longest = 0\nfor i in n {{\n    acc = acc .. \"chunk\" .. i\n    if i % {m} == 0 {{\n        acc = \"\"\n    }}\n}}\nobs(0, \"\" .. (acc == acc))\n"
            ));
        }
        2 => {
            has_tasks = true;
            descr = "a task spawned and finished per iteration".to_string();
            src.push_str(
                "let c: channel<string> = channel()\nvar total = 0\nvar i = 0\nwhile i < n {\n    let j = i\n    task {\n        c.write(compute(j))\n    }\n    let r = c.read()\n    total = total + 1\n    i = i + 1\n}\nobs(0, \"\" .. (total == n))\n",
            );
        }
        3 => {
            descr = "struct / enum / closure / option churn".to_string();
            src.push_str(
                "var bx = Box(\"b\", fresh(0, 3))\nvar sh = Shape.Leaf(\"l\")\nvar f = make_fn(\"p\", fresh(1, 2))\nvar op: option<array<string>> = option.none\nvar chk = 0\nfor i in n {\n    bx = Box(\"b\" .. i, fresh(i, 4))\n    sh = Shape.Node(bx.more, \"n\" .. i)\n    f = make_fn(describe(sh), bx.more)\n    op = option.some(fresh(i, 3))\n    chk = chk + bx.more.len()\n}\nobs(0, f(0) .. (chk == 4 * n))\n",
            );
        }
        4 => {
            has_tasks = true;
            descr = "request / response with a long-lived task, heap messages".to_string();
            src.push_str(
                "let req: channel<array<string>> = channel()\nlet resp: channel<string> = channel()\ntask {\n    serve(req, resp, n)\n}\nvar seen = 0\nfor i in n {\n    req.write(fresh(i, 5))\n    let r = resp.read()\n    seen = seen + 1\n}\nobs(0, \"\" .. (seen == n))\n",
            );
        }
        _ => {
            descr = format!("table of {k} rows rebuilt in place");
            src.push_str(&format!(
                "let table: array<array<string>> = []\nfor r in {k} {{\n    table.push(fresh(r, 3))\n}}\nfor i in n {{\n    table[i % {k}] = fresh(i, 3)\n    if i % 7 == 0 {{\n        table[(i + 1) % {k}].push(\"x\" .. i)\n        table[(i + 1) % {k}].pop()\n    }}\n}}\nobs(0, \"\" .. table.len())\n"
            ));
        }
    }
    src.push_str("n\n");
    let mut w = Workload::new("bounded", descr, src);
    w.has_tasks = has_tasks;
    w.projection = Projection::None;
    w
}
