//! W-conc: bounded producer / consumer programs over channels carrying scalar and heap values
//! (C09; also C01, C06, C10-part-2 and C11 mixtures). Every written value is unique, so each read
//! is attributable to one write. The generator's model gives the exact observations for the
//! determinate shapes and a multiset for the fan-in shape.

use super::tytree::{Gen, Mutation, Val};
use super::{Projection, Workload};
use crate::rng::Rng;
use std::cell::RefCell;

/// shape of the messages of the current program when the kind is `Tree`: the body every message
/// starts with, and the in-place mutation `touch` performs on it
struct TreeCtx {
    template: Val,
    mutation: Option<Mutation>,
}

thread_local! {
    static TREE: RefCell<Option<TreeCtx>> = const { RefCell::new(None) };
}

#[derive(Clone, Copy, Debug, PartialEq)]
pub enum Kind {
    Int,
    Str,
    Pair,
    Arr,
    Nested,
    Opt,
    Rec,
    Node,
    /// a closure that captured an array; `touch` wraps it in another closure
    Closure,
    /// an array of well over a hundred heap strings (a message that is large to copy)
    BigArr,
    /// a struct wrapping a random shape from the type algebra (nested up to three levels)
    Tree,
}

const KINDS: &[Kind] = &[
    Kind::Int,
    Kind::Str,
    Kind::Pair,
    Kind::Arr,
    Kind::Nested,
    Kind::Opt,
    Kind::Rec,
    Kind::Node,
    Kind::Closure,
    Kind::BigArr,
    Kind::Tree,
    Kind::Tree,
    Kind::Tree,
];

#[derive(Clone, Debug)]
enum V {
    Int(i64),
    Str(String),
    Pair(i64, String),
    Arr(Vec<String>),
    Nested(Vec<Vec<i64>>),
    Opt(Option<String>),
    Rec(String, Vec<i64>),
    Node(Vec<String>, String),
    Closure(String),
    Big(Vec<String>),
    Tree(i64, i64, Val),
}

/// the Abra side of a `Tree` kind: type declarations, `mk`, `show`, `touch`; sets up the model
fn tree_fns(rng: &mut Rng) -> (String, String) {
    let mut g = Gen::new();
    let depth = rng.range(1, 3) as u32;
    let ty = g.mutable_ty(rng, depth);
    let (template, init) = g.value(rng, &ty);
    let show_fn = g.show_fn(&ty);
    let mutation = g.plan_mutation(rng, &ty, &template, "k");
    let touch_body = match &mutation {
        Some(m) => format!("    {}(x.body)\n", g.mutation_fn(&ty, m)),
        None => String::new(),
    };
    let mut code = g.decls.clone();
    code.push_str(&format!("type Msg = {{\n    w: int\n    seq: int\n    body: {}\n}}\n", ty.name()));
    code.push_str(&format!("fn mk(w: int, seq: int) -> Msg {{\n    Msg(w, seq, {init})\n}}\n"));
    code.push_str(&format!("fn show(x: Msg) -> string {{\n    \"\" .. x.w .. \"/\" .. x.seq .. \"/\" .. {show_fn}(x.body)\n}}\n"));
    code.push_str(&format!("fn touch(x: Msg, k: int) -> Msg {{\n{touch_body}    x.seq = x.seq + 1000 * k\n    x\n}}\n"));
    let descr = ty.describe();
    TREE.with(|t| *t.borrow_mut() = Some(TreeCtx { template, mutation }));
    (code, descr)
}

impl Kind {
    fn ty(self) -> &'static str {
        match self {
            Kind::Int => "int",
            Kind::Str => "string",
            Kind::Pair => "(int, string)",
            Kind::Arr => "array<string>",
            Kind::Nested => "array<array<int>>",
            Kind::Opt => "option<string>",
            Kind::Rec => "Rec",
            Kind::Node => "Shape",
            Kind::Closure => "int -> string",
            Kind::BigArr => "array<string>",
            Kind::Tree => "Msg",
        }
    }

    fn name(self) -> &'static str {
        match self {
            Kind::Int => "int",
            Kind::Str => "string",
            Kind::Pair => "(int,string)",
            Kind::Arr => "array<string>",
            Kind::Nested => "array<array<int>>",
            Kind::Opt => "option<string>",
            Kind::Rec => "struct",
            Kind::Node => "enum",
            Kind::Closure => "closure",
            Kind::BigArr => "array<string>[130+]",
            Kind::Tree => "tree",
        }
    }

    /// Abra: `mk(w, seq)`, `show(x)`, `touch(x, k)` for this kind
    fn fns(self) -> &'static str {
        match self {
            Kind::Int => {
                r#"fn mk(w: int, seq: int) -> int { w * 1000 + seq }
fn show(x: int) -> string { "" .. x }
fn touch(x: int, k: int) -> int { x + 100000 * k }
"#
            }
            Kind::Str => {
                r#"fn mk(w: int, seq: int) -> string { "m" .. w .. "_" .. seq }
fn show(x: string) -> string { x }
fn touch(x: string, k: int) -> string { x .. "+" .. k }
"#
            }
            Kind::Pair => {
                r#"fn mk(w: int, seq: int) -> (int, string) { (seq, "m" .. w .. "_" .. seq) }
fn show(x: (int, string)) -> string {
    let (n, s) = x
    "" .. n .. ":" .. s
}
fn touch(x: (int, string), k: int) -> (int, string) {
    let (n, s) = x
    (n + k, s .. "+" .. k)
}
"#
            }
            Kind::Arr => {
                r#"fn mk(w: int, seq: int) -> array<string> { ["m" .. w, "x" .. seq] }
fn show(x: array<string>) -> string {
    var s = ""
    for e in x {
        s = s .. e .. ","
    }
    s
}
fn touch(x: array<string>, k: int) -> array<string> {
    x.push("k" .. k)
    x
}
"#
            }
            Kind::Nested => {
                r#"fn mk(w: int, seq: int) -> array<array<int>> { [[w, seq], [seq]] }
fn show(x: array<array<int>>) -> string {
    var s = ""
    for row in x {
        s = s .. "<"
        for e in row {
            s = s .. e .. ","
        }
        s = s .. ">"
    }
    s
}
fn touch(x: array<array<int>>, k: int) -> array<array<int>> {
    x[0].push(k)
    x
}
"#
            }
            Kind::Opt => {
                r#"fn mk(w: int, seq: int) -> option<string> {
    if seq % 2 == 0 { option.some("m" .. w .. "_" .. seq) } else { option.none }
}
fn show(x: option<string>) -> string {
    match x {
        .some(s) -> "some:" .. s,
        .none -> "none"
    }
}
fn touch(x: option<string>, k: int) -> option<string> {
    match x {
        .some(s) -> option.some(s .. "+" .. k),
        .none -> option.none
    }
}
"#
            }
            Kind::Rec => {
                r#"fn mk(w: int, seq: int) -> Rec { Rec("m" .. w, [seq, seq + 1]) }
fn show(x: Rec) -> string {
    var s = x.name .. ":"
    for e in x.vals {
        s = s .. e .. ","
    }
    s
}
fn touch(x: Rec, k: int) -> Rec {
    x.vals.push(k)
    x.name = x.name .. "!"
    x
}
"#
            }
            // generated per program, see `tree_fns`
            Kind::Tree => "",
            Kind::BigArr => {
                r#"fn mk(w: int, seq: int) -> array<string> {
    let a = []
    for k in 130 + seq * 7 {
        a.push("e" .. w .. "_" .. seq .. "_" .. k)
    }
    a
}
fn show(x: array<string>) -> string {
    // joined in blocks of twelve so that the cost stays linear in the number of elements
    var s = "" .. x.len() .. ":"
    var part = ""
    var i = 0
    while i < x.len() {
        part = part .. x[i] .. ","
        if i % 12 == 11 {
            s = s .. part
            part = ""
        }
        i = i + 1
    }
    s .. part
}
fn touch(x: array<string>, k: int) -> array<string> {
    x.push("k" .. k)
    x
}
"#
            }
            Kind::Closure => {
                r#"fn mk(w: int, seq: int) {
    let xs = ["m" .. w]
    (i: int) -> xs[0] .. "_" .. seq .. "/" .. i
}
fn show(x: int -> string) -> string { x(7) }
fn touch(x: int -> string, k: int) {
    (i: int) -> x(i) .. "+" .. k
}
"#
            }
            Kind::Node => {
                r#"fn mk(w: int, seq: int) -> Shape { Shape.Node(["a" .. seq], "m" .. w) }
fn show(x: Shape) -> string {
    match x {
        .Leaf(s) -> "L" .. s,
        .Node(xs, y) -> {
            var s = "N"
            for e in xs {
                s = s .. e .. ","
            }
            s .. y
        }
    }
}
fn touch(x: Shape, k: int) -> Shape {
    match x {
        .Leaf(_) -> x,
        .Node(xs, _) -> {
            xs.push("k" .. k)
            x
        }
    }
}
"#
            }
        }
    }

    fn mk(self, w: i64, seq: i64) -> V {
        match self {
            Kind::Int => V::Int(w * 1000 + seq),
            Kind::Str => V::Str(format!("m{w}_{seq}")),
            Kind::Pair => V::Pair(seq, format!("m{w}_{seq}")),
            Kind::Arr => V::Arr(vec![format!("m{w}"), format!("x{seq}")]),
            Kind::Nested => V::Nested(vec![vec![w, seq], vec![seq]]),
            Kind::Opt => V::Opt(if seq % 2 == 0 {
                Some(format!("m{w}_{seq}"))
            } else {
                None
            }),
            Kind::Rec => V::Rec(format!("m{w}"), vec![seq, seq + 1]),
            Kind::Node => V::Node(vec![format!("a{seq}")], format!("m{w}")),
            Kind::Closure => V::Closure(format!("m{w}_{seq}/7")),
            Kind::BigArr => V::Big((0..130 + seq * 7).map(|k| format!("e{w}_{seq}_{k}")).collect()),
            Kind::Tree => TREE.with(|t| V::Tree(w, seq, t.borrow().as_ref().unwrap().template.clone())),
        }
    }

    /// in-place mutation is visible through aliases (true) or `touch` returns a new value (false)
    fn mutable(self) -> bool {
        matches!(self, Kind::Arr | Kind::Nested | Kind::Rec | Kind::Node)
    }
}

impl V {
    fn show(&self) -> String {
        match self {
            V::Int(n) => n.to_string(),
            V::Str(s) => s.clone(),
            V::Pair(n, s) => format!("{n}:{s}"),
            V::Arr(a) => a.iter().map(|e| format!("{e},")).collect(),
            V::Nested(a) => a
                .iter()
                .map(|r| format!("<{}>", r.iter().map(|e| format!("{e},")).collect::<String>()))
                .collect(),
            V::Opt(Some(s)) => format!("some:{s}"),
            V::Opt(None) => "none".into(),
            V::Rec(name, vals) => format!("{name}:{}", vals.iter().map(|e| format!("{e},")).collect::<String>()),
            V::Node(xs, y) => format!("N{}{y}", xs.iter().map(|e| format!("{e},")).collect::<String>()),
            V::Closure(s) => s.clone(),
            V::Big(a) => format!("{}:{}", a.len(), a.iter().map(|e| format!("{e},")).collect::<String>()),
            V::Tree(w, seq, body) => format!("{w}/{seq}/{}", body.show()),
        }
    }

    fn touch(&self, k: i64) -> V {
        match self {
            V::Int(n) => V::Int(n + 100000 * k),
            V::Str(s) => V::Str(format!("{s}+{k}")),
            V::Pair(n, s) => V::Pair(n + k, format!("{s}+{k}")),
            V::Arr(a) => {
                let mut a = a.clone();
                a.push(format!("k{k}"));
                V::Arr(a)
            }
            V::Nested(a) => {
                let mut a = a.clone();
                a[0].push(k);
                V::Nested(a)
            }
            V::Opt(Some(s)) => V::Opt(Some(format!("{s}+{k}"))),
            V::Opt(None) => V::Opt(None),
            V::Rec(name, vals) => {
                let mut vals = vals.clone();
                vals.push(k);
                V::Rec(format!("{name}!"), vals)
            }
            V::Node(xs, y) => {
                let mut xs = xs.clone();
                xs.push(format!("k{k}"));
                V::Node(xs, y.clone())
            }
            V::Closure(s) => V::Closure(format!("{s}+{k}")),
            V::Big(a) => {
                let mut a = a.clone();
                a.push(format!("k{k}"));
                V::Big(a)
            }
            V::Tree(w, seq, body) => {
                let mut body = body.clone();
                TREE.with(|t| {
                    if let Some(m) = &t.borrow().as_ref().unwrap().mutation {
                        m.apply(&mut body);
                    }
                });
                V::Tree(*w, seq + 1000 * k, body)
            }
        }
    }
}

const COMMON: &str = r#"use simhost

type Rec = {
    name: string
    vals: array<int>
}

type Shape =
    | Leaf(string)
    | Node(array<string>, string)

fn work(n: int) -> int {
    var s = 0
    let junk = []
    for k in n {
        junk.push("j" .. k)
        s = s + k
    }
    s
}

"#;

fn maybe_pause(rng: &mut Rng, indent: &str) -> String {
    if rng.chance(1, 3) {
        format!("{indent}pause()\n")
    } else {
        String::new()
    }
}

fn maybe_work(rng: &mut Rng, indent: &str) -> String {
    if rng.chance(1, 3) {
        format!("{indent}work({})\n", rng.range(5, 40))
    } else {
        String::new()
    }
}

#[derive(Clone, Copy, Debug, PartialEq)]
pub enum Shape {
    Pipeline,
    FanIn,
    WriterDiesFirst,
    RequestResponse,
    Independence,
    MainLeavesEarly,
    FailingTask,
    /// two tasks read from the same channel: every value goes to exactly one of them
    CompetingReaders,
    /// a request carries the channel on which the answer is expected
    ChannelInMessage,
    /// messages that hold handles to channels stay queued - one of them in the very channel it
    /// refers to, two queues referring to each other - when the program ends or is dropped
    QueuedCycle,
    /// one message carries a channel handle and the same object twice
    AliasedRequest,
    /// several writer tasks and several reader tasks on one channel
    WorkPool,
    /// a fire-and-forget task fills a channel it created itself, hands the channel over inside
    /// a message and ends (or drops its handle and collects) before the receiver looks: the
    /// queued handle alone keeps the channel and what is queued in it alive
    Handoff,
    /// several writer tasks, spawned back to back, that never call the host and never block,
    /// write into one channel; main only reads and reports. The merge order is not known to the
    /// generator, but it cannot depend on slicing: nothing a slice boundary or a late host
    /// answer delays (only main ever waits for the host) takes part in producing it
    FanInLockstep,
}

pub const DETERMINATE: &[Shape] = &[
    Shape::Pipeline,
    Shape::WriterDiesFirst,
    Shape::RequestResponse,
    Shape::Independence,
    Shape::ChannelInMessage,
    Shape::AliasedRequest,
    Shape::Handoff,
    Shape::FanInLockstep,
    Shape::FanInLockstep,
];

pub const ALL: &[Shape] = &[
    Shape::Pipeline,
    Shape::FanIn,
    Shape::WriterDiesFirst,
    Shape::RequestResponse,
    Shape::Independence,
    Shape::MainLeavesEarly,
    Shape::FailingTask,
    Shape::CompetingReaders,
    Shape::ChannelInMessage,
    Shape::ChannelInMessage,
    Shape::QueuedCycle,
    Shape::AliasedRequest,
    Shape::WorkPool,
    Shape::Handoff,
    Shape::FanInLockstep,
];

pub fn generate(rng: &mut Rng, shapes: &[Shape], print_from_main: bool) -> Workload {
    let shape = *rng.pick(shapes);
    let mut kind = *rng.pick(KINDS);
    if (shape == Shape::AliasedRequest || shape == Shape::WorkPool || shape == Shape::FanInLockstep) && kind == Kind::BigArr {
        // three large arrays rendered per request would dominate the run
        kind = Kind::Arr;
    }
    let ty = kind.ty();
    let m = if kind == Kind::BigArr { rng.range(1, 3) as i64 } else { rng.range(2, 6) as i64 };
    let mut src = String::from(COMMON);
    let mut kind_descr = kind.name().to_string();
    if kind == Kind::Tree {
        let (code, descr) = tree_fns(rng);
        src.push_str(&code);
        kind_descr = format!("struct{{int,int,{descr}}}");
    } else {
        src.push_str(kind.fns());
    }
    src.push('\n');
    let mut obs: Vec<(i64, String)> = vec![];
    let mut sorted_only = false;
    let mut projection = Projection::AllThreads;
    let mut drains = true;
    let mut error_prefix = None;
    // `say` is how main reports: through obs, or (for the print-only-from-main programs of
    // C10 part 2) through println
    let say = |tag: i64, expr: &str| -> String {
        if print_from_main {
            format!("println(\"[{tag}] \" .. {expr})\n")
        } else {
            format!("obs({tag}, {expr})\n")
        }
    };
    match shape {
        Shape::Pipeline => {
            let stages = rng.range(1, 2);
            src.push_str(&format!("fn stage(inp: channel<{ty}>, out: channel<{ty}>, n: int, k: int) {{\n    for i in n {{\n        let x = inp.read()\n"));
            src.push_str(&maybe_pause(rng, "        "));
            src.push_str(&maybe_work(rng, "        "));
            src.push_str("        out.write(touch(x, k))\n    }\n}\n\n");
            for s in 0..=stages {
                src.push_str(&format!("let c{s}: channel<{ty}> = channel()\n"));
            }
            for s in 0..stages {
                src.push_str(&format!("task {{\n    stage(c{s}, c{}, {m}, {})\n}}\n", s + 1, s + 1));
            }
            src.push_str(&format!("let sent: array<{ty}> = []\n"));
            let interleaved = rng.chance(1, 2);
            if interleaved {
                src.push_str(&format!("for i in {m} {{\n    let x = mk(0, i)\n    sent.push(x)\n    c0.write(x)\n"));
                src.push_str(&maybe_pause(rng, "    "));
                src.push_str(&format!("    let y = c{stages}.read()\n    {}}}\n", say(0, "show(y)").replace("[0]", "[\" .. i .. \"]").replace("obs(0,", "obs(i,")));
            } else {
                src.push_str(&format!("for i in {m} {{\n    let x = mk(0, i)\n    sent.push(x)\n    c0.write(x)\n}}\n"));
                src.push_str(&maybe_work(rng, ""));
                src.push_str(&maybe_pause(rng, ""));
                src.push_str(&format!("for i in {m} {{\n    let y = c{stages}.read()\n    {}}}\n", say(0, "show(y)").replace("[0]", "[\" .. i .. \"]").replace("obs(0,", "obs(i,")));
            }
            src.push_str(&format!("for i in {m} {{\n    {}}}\n", say(0, "show(sent[i])").replace("[0]", "[\" .. (100 + i) .. \"]").replace("obs(0,", "obs(100 + i,")));
            for i in 0..m {
                let mut v = kind.mk(0, i);
                for s in 0..stages {
                    v = v.touch(s as i64 + 1);
                }
                obs.push((i, v.show()));
            }
            for i in 0..m {
                // the sender's originals are untouched by what the stages did to their copies
                obs.push((100 + i, kind.mk(0, i).show()));
            }
        }
        Shape::FanIn => {
            let writers = rng.range(2, 3) as i64;
            src.push_str(&format!("fn produce(out: channel<{ty}>, w: int, n: int) {{\n    for i in n {{\n"));
            src.push_str(&maybe_pause(rng, "        "));
            src.push_str(&maybe_work(rng, "        "));
            src.push_str("        out.write(mk(w, i))\n    }\n}\n\n");
            src.push_str(&format!("let c: channel<{ty}> = channel()\n"));
            for w in 1..=writers {
                src.push_str(&format!("task {{\n    produce(c, {w}, {m})\n}}\n"));
            }
            src.push_str(&format!("for i in {} {{\n    let y = c.read()\n    {}}}\n", writers * m, say(7, "show(y)")));
            for w in 1..=writers {
                for i in 0..m {
                    obs.push((7, kind.mk(w, i).show()));
                }
            }
            sorted_only = true;
            projection = Projection::None;
        }
        Shape::FanInLockstep => {
            let writers = rng.range(2, 3) as i64;
            // triggered: every writer first blocks on a channel of its own until main, without
            // a host call in between, has told each of them to start. When a blocked reader
            // resumes relative to the others is then part of what must not depend on slicing.
            let triggered = rng.chance(1, 2);
            if triggered {
                src.push_str(&format!("fn produce(go: channel<int>, out: channel<{ty}>, w: int, n: int, pad: int, gap: int) {{\n    let told = go.read()\n    work(pad + told - 1)\n    for i in n {{\n        out.write(mk(w, i))\n        work(gap)\n    }}\n}}\n\n"));
            } else {
                src.push_str(&format!("fn produce(out: channel<{ty}>, w: int, n: int, pad: int, gap: int) {{\n    work(pad)\n    for i in n {{\n        out.write(mk(w, i))\n        work(gap)\n    }}\n}}\n\n"));
            }
            src.push_str(&format!("let c: channel<{ty}> = channel()\n"));
            if triggered {
                for w in 1..=writers {
                    src.push_str(&format!("let go{w}: channel<int> = channel()\n"));
                }
            }
            for w in 1..=writers {
                if triggered {
                    src.push_str(&format!("task {{\n    produce(go{w}, c, {w}, {m}, {}, {})\n}}\n", rng.below(8), rng.below(4)));
                } else {
                    src.push_str(&format!("task {{\n    produce(c, {w}, {m}, {}, {})\n}}\n", rng.below(8), rng.below(4)));
                }
            }
            if triggered {
                // long enough, sometimes, for every writer to be blocked when the first is told
                src.push_str(&format!("work({})\n", rng.below(30)));
                for w in 1..=writers {
                    src.push_str(&format!("go{w}.write(1)\n"));
                }
            }
            src.push_str(&maybe_work(rng, ""));
            src.push_str(&format!("for i in {} {{\n    let y = c.read()\n    {}}}\n", writers * m, say(7, "show(y)")));
            for w in 1..=writers {
                for i in 0..m {
                    obs.push((7, kind.mk(w, i).show()));
                }
            }
            sorted_only = true;
            projection = Projection::MainOnly;
        }
        Shape::WriterDiesFirst => {
            let drops_and_collects = rng.chance(1, 2);
            src.push_str(&format!("fn produce(out: channel<{ty}>, n: int) {{\n    for i in n {{\n        out.write(mk(1, i))\n    }}\n}}\n"));
            src.push_str(&format!("fn late_reader(inp: channel<{ty}>, out: channel<string>, n: int) {{\n    for i in n {{\n        let x = inp.read()\n        out.write(show(touch(x, 9)))\n    }}\n}}\n\n"));
            src.push_str(&format!("let c: channel<{ty}> = channel()\nlet back: channel<{ty}> = channel()\nlet res: channel<string> = channel()\n"));
            src.push_str(&format!("task {{\n    produce(c, {m})\n"));
            if drops_and_collects {
                // the writer stays alive but drops its references and collects
                src.push_str("    work(60)\n    pause()\n");
            }
            src.push_str("}\n");
            src.push_str(&format!("task {{\n    pause()\n    late_reader(back, res, {m})\n}}\n"));
            src.push_str(&format!("work({})\npause()\npause()\n", rng.range(20, 80)));
            src.push_str(&format!("for i in {m} {{\n    let y = c.read()\n    {}    let z = touch(y, 5)\n    back.write(z)\n    {}}}\n",
                say(0, "show(y)").replace("obs(0,", "obs(i,").replace("[0]", "[\" .. i .. \"]"),
                say(0, "show(z)").replace("obs(0,", "obs(100 + i,").replace("[0]", "[\" .. (100 + i) .. \"]")));
            src.push_str(&format!("for i in {m} {{\n    {}}}\n", say(0, "res.read()").replace("obs(0,", "obs(200 + i,").replace("[0]", "[\" .. (200 + i) .. \"]")));
            // order of main's observations: per i: (i, 100+i), then the 200+i block
            for i in 0..m {
                let v = kind.mk(1, i);
                obs.push((i, v.show()));
                obs.push((100 + i, v.touch(5).show()));
            }
            for i in 0..m {
                obs.push((200 + i, kind.mk(1, i).touch(5).touch(9).show()));
            }
        }
        Shape::RequestResponse => {
            src.push_str(&format!("fn serve(req: channel<{ty}>, resp: channel<{ty}>, n: int) {{\n    for i in n {{\n        let x = req.read()\n"));
            src.push_str(&maybe_pause(rng, "        "));
            src.push_str("        resp.write(touch(x, 3))\n");
            src.push_str(&maybe_work(rng, "        "));
            src.push_str("    }\n}\n\n");
            src.push_str(&format!("let req: channel<{ty}> = channel()\nlet resp: channel<{ty}> = channel()\n"));
            src.push_str(&format!("task {{\n    serve(req, resp, {m})\n}}\n"));
            src.push_str(&format!("for i in {m} {{\n    let x = mk(0, i)\n    req.write(x)\n"));
            src.push_str(&maybe_pause(rng, "    "));
            src.push_str(&format!("    let y = resp.read()\n    {}}}\n", say(0, "show(y) .. \"/\" .. show(x)").replace("obs(0,", "obs(i,").replace("[0]", "[\" .. i .. \"]")));
            for i in 0..m {
                let v = kind.mk(0, i);
                obs.push((i, format!("{}/{}", v.touch(3).show(), v.show())));
            }
        }
        Shape::Independence => {
            // the writer keeps what it sent, mutates it and sends it again; the reader mutates
            // what it received and sends it back; nobody sees the other's mutations
            src.push_str(&format!("fn keeper(out: channel<{ty}>, back: channel<{ty}>, res: channel<string>) {{\n    let x = mk(1, 0)\n    out.write(x)\n"));
            src.push_str(&maybe_pause(rng, "    "));
            src.push_str("    let x2 = touch(x, 1)\n    out.write(x2)\n");
            src.push_str(&maybe_work(rng, "    "));
            src.push_str("    let x3 = touch(x2, 2)\n    let r1 = back.read()\n    let r2 = back.read()\n");
            src.push_str("    res.write(show(x3) .. \"/\" .. show(r1) .. \"/\" .. show(r2))\n}\n\n");
            src.push_str(&format!("let c: channel<{ty}> = channel()\nlet back: channel<{ty}> = channel()\nlet res: channel<string> = channel()\n"));
            src.push_str("task {\n    keeper(c, back, res)\n}\n");
            src.push_str(&maybe_pause(rng, ""));
            src.push_str("let a = c.read()\n");
            src.push_str(&maybe_work(rng, ""));
            src.push_str("let b = c.read()\n");
            src.push_str(&say(0, "show(a) .. \"/\" .. show(b)"));
            src.push_str("let a7 = touch(a, 7)\nback.write(a7)\nback.write(b)\n");
            src.push_str(&say(1, "show(a7) .. \"/\" .. show(b)"));
            src.push_str(&say(2, "res.read()"));
            let x = kind.mk(1, 0);
            let x2 = x.touch(1);
            let x3 = x2.touch(2);
            // `a` is a snapshot of x at the first write. For kinds mutated in place the writer's
            // x, x2 and x3 are the same object, so the second write sends x after one mutation.
            let a = x.clone();
            let b = x2.clone();
            obs.push((0, format!("{}/{}", a.show(), b.show())));
            let a7 = a.touch(7);
            obs.push((1, format!("{}/{}", a7.show(), b.show())));
            obs.push((2, format!("{}/{}/{}", x3.show(), a7.show(), b.show())));
            let _ = kind.mutable();
        }
        Shape::MainLeavesEarly => {
            src.push_str(&format!("fn blocked(c: channel<{ty}>) {{\n    let x = c.read()\n    work(1)\n}}\n"));
            src.push_str("fn parked() {\n    pause()\n    pause()\n    pause()\n    pause()\n}\n");
            src.push_str("fn busy() {\n    for i in 200 {\n        work(20)\n    }\n}\n");
            src.push_str("fn failing(d: int) -> int {\n    10 / d\n}\n\n");
            src.push_str(&format!("let never: channel<{ty}> = channel()\nlet c: channel<{ty}> = channel()\n"));
            let mut kinds = vec![];
            for _ in 0..rng.range(1, 3) {
                match rng.below(4) {
                    0 => {
                        src.push_str("task {\n    blocked(never)\n}\n");
                        kinds.push("blocked");
                    }
                    1 => {
                        src.push_str("task {\n    parked()\n}\n");
                        kinds.push("parked");
                    }
                    2 => {
                        src.push_str("task {\n    busy()\n}\n");
                        kinds.push("busy");
                    }
                    _ => {
                        src.push_str("task {\n    failing(0)\n}\n");
                        kinds.push("failing");
                    }
                }
            }
            src.push_str(&format!("c.write(mk(0, 1))\nlet y = c.read()\n{}", say(0, "show(y)")));
            src.push_str(&maybe_pause(rng, ""));
            obs.push((0, kind.mk(0, 1).show()));
            projection = Projection::MainOnly;
            drains = false;
        }
        Shape::CompetingReaders => {
            let per_reader = rng.range(1, 3) as i64;
            src.push_str(&format!("fn consume(inp: channel<{ty}>, out: channel<string>, n: int) {{\n    for i in n {{\n        let x = inp.read()\n"));
            src.push_str(&maybe_pause(rng, "        "));
            src.push_str(&maybe_work(rng, "        "));
            src.push_str("        out.write(show(x))\n    }\n}\n\n");
            src.push_str(&format!("let c: channel<{ty}> = channel()\nlet res: channel<string> = channel()\n"));
            src.push_str(&format!("task {{\n    consume(c, res, {per_reader})\n}}\ntask {{\n    consume(c, res, {per_reader})\n}}\n"));
            src.push_str(&format!("for i in {} {{\n    c.write(mk(0, i))\n", 2 * per_reader));
            src.push_str(&maybe_pause(rng, "    "));
            src.push_str("}\n");
            src.push_str(&format!("for i in {} {{\n    {}}}\n", 2 * per_reader, say(7, "res.read()")));
            for i in 0..2 * per_reader {
                obs.push((7, kind.mk(0, i).show()));
            }
            sorted_only = true;
            projection = Projection::None;
        }
        Shape::ChannelInMessage => {
            src.push_str(&format!("type Req = {{\n    val: {ty}\n    reply: channel<string>\n}}\n\n"));
            if rng.chance(2, 3) {
                // each request is handled in a call of its own: nothing of the previous request
                // (its reply handle included) is reachable when the next one is received
                src.push_str("fn serve_one(reqs: channel<Req>) {\n    let r = reqs.read()\n");
                src.push_str(&maybe_pause(rng, "    "));
                src.push_str("    r.reply.write(show(touch(r.val, 4)))\n");
                src.push_str(&maybe_work(rng, "    "));
                src.push_str("}\nfn serve(reqs: channel<Req>, n: int) {\n    for i in n {\n        serve_one(reqs)\n    }\n}\n\n");
            } else {
                src.push_str("fn serve(reqs: channel<Req>, n: int) {\n    for i in n {\n        let r = reqs.read()\n");
                src.push_str(&maybe_pause(rng, "        "));
                src.push_str("        r.reply.write(show(touch(r.val, 4)))\n");
                src.push_str(&maybe_work(rng, "        "));
                src.push_str("    }\n}\n\n");
            }
            src.push_str("let reqs: channel<Req> = channel()\n");
            src.push_str(&format!("task {{\n    serve(reqs, {m})\n}}\n"));
            let reuse = rng.chance(2, 3);
            if reuse && rng.chance(1, 2) {
                // one reply channel, and all requests sent before the first reply is read: the
                // server finds each next request (with a handle to the same channel) already
                // queued when it has just dropped everything of the previous one
                src.push_str(&format!("let mine: channel<string> = channel()\nfor i in {m} {{\n    reqs.write(Req(mk(0, i), mine))\n}}\n"));
                src.push_str(&maybe_pause(rng, ""));
                src.push_str(&format!("for i in {m} {{\n    {}}}\n", say(0, "mine.read()").replace("obs(0,", "obs(i,").replace("[0]", "[\" .. i .. \"]")));
                for i in 0..m {
                    obs.push((i, kind.mk(0, i).touch(4).show()));
                }
            } else {
                if reuse {
                    // one reply channel for all requests: the server receives a handle to the
                    // same channel again and again, each earlier one unreachable by then
                    src.push_str(&format!("let mine: channel<string> = channel()\nfor i in {m} {{\n    let x = mk(0, i)\n    reqs.write(Req(x, mine))\n"));
                } else {
                    src.push_str(&format!("for i in {m} {{\n    let mine: channel<string> = channel()\n    let x = mk(0, i)\n    reqs.write(Req(x, mine))\n"));
                }
                src.push_str(&maybe_pause(rng, "    "));
                src.push_str(&format!("    {}}}\n", say(0, "mine.read() .. \"/\" .. show(x)").replace("obs(0,", "obs(i,").replace("[0]", "[\" .. i .. \"]")));
                for i in 0..m {
                    let v = kind.mk(0, i);
                    obs.push((i, format!("{}/{}", v.touch(4).show(), v.show())));
                }
            }
        }
        Shape::Handoff => {
            let workers = rng.range(1, 2) as i64;
            // the channel is created in a function that has returned by the time it is sent, or
            // directly in the task body
            let in_callee = rng.chance(1, 2);
            src.push_str(&format!("fn filled(k: int, n: int) -> channel<{ty}> {{\n    let r: channel<{ty}> = channel()\n    for i in n {{\n        r.write(mk(k, i))\n    }}\n    r\n}}\n"));
            src.push_str(&format!("fn hand_over(out: channel<channel<{ty}>>, k: int, n: int) {{\n"));
            if in_callee {
                src.push_str("    out.write(filled(k, n))\n");
            } else {
                src.push_str(&format!("    let r: channel<{ty}> = channel()\n    out.write(r)\n    for i in n {{\n        r.write(mk(k, i))\n    }}\n"));
            }
            src.push_str("}\n\n");
            for w in 1..=workers {
                src.push_str(&format!("let out{w}: channel<channel<{ty}>> = channel()\n"));
            }
            for w in 1..=workers {
                src.push_str(&format!("task {{\n    hand_over(out{w}, {w}, {m})\n"));
                // the task may stay around, without its handle, and collect
                match rng.below(3) {
                    0 => src.push_str(&format!("    work({})\n", rng.range(10, 70))),
                    1 => src.push_str("    pause()\n"),
                    _ => {}
                }
                src.push_str("}\n");
            }
            // main may look at once, after the tasks have ended, or anywhere in between
            match rng.below(4) {
                0 => {}
                1 => src.push_str("pause()\n"),
                2 => src.push_str(&format!("work({})\n", rng.range(5, 40))),
                _ => src.push_str(&format!("work({})\npause()\npause()\n", rng.range(40, 160))),
            }
            for w in 1..=workers {
                src.push_str(&format!("let got{w} = out{w}.read()\n"));
                src.push_str(&maybe_work(rng, ""));
                src.push_str(&format!("for i in {m} {{\n    {}}}\n", say(0, &format!("show(got{w}.read())")).replace("obs(0,", &format!("obs({} + i,", w * 100)).replace("[0]", &format!("[\" .. ({} + i) .. \"]", w * 100))));
                for i in 0..m {
                    obs.push((w * 100 + i, kind.mk(w, i).show()));
                }
            }
        }
        Shape::WorkPool => {
            let writers = rng.range(2, 3) as i64;
            let readers = rng.range(2, 3) as i64;
            // every reader takes the same number of values; writers produce exactly that total
            let per_reader = rng.range(1, 3) as i64 * writers;
            let per_writer = per_reader * readers / writers;
            src.push_str(&format!("fn produce(out: channel<{ty}>, w: int, n: int, pad: int) {{\n    work(pad)\n    for i in n {{\n        out.write(mk(w, i))\n"));
            src.push_str(&maybe_pause(rng, "        "));
            src.push_str("    }\n}\n");
            src.push_str(&format!("fn consume(inp: channel<{ty}>, out: channel<string>, n: int) {{\n    for i in n {{\n        let x = inp.read()\n"));
            src.push_str(&maybe_work(rng, "        "));
            src.push_str("        out.write(show(x))\n    }\n}\n\n");
            src.push_str(&format!("let c: channel<{ty}> = channel()\nlet res: channel<string> = channel()\n"));
            for _ in 0..readers {
                src.push_str(&format!("task {{\n    consume(c, res, {per_reader})\n}}\n"));
            }
            for w in 1..=writers {
                // different start-up work per writer, so their writes fall into the same or
                // into different scheduler rounds depending on the program
                src.push_str(&format!("task {{\n    produce(c, {w}, {per_writer}, {})\n}}\n", rng.below(6)));
            }
            src.push_str(&format!("for i in {} {{\n    {}}}\n", per_reader * readers, say(7, "res.read()")));
            for w in 1..=writers {
                for i in 0..per_writer {
                    obs.push((7, kind.mk(w, i).show()));
                }
            }
            sorted_only = true;
            projection = Projection::None;
        }
        Shape::AliasedRequest => {
            // field order is drawn per program: the handle may come before, between or after the
            // values, and the first and third value are one and the same object
            let mut fields = vec!["reply", "va", "vb", "vc"];
            rng.shuffle(&mut fields);
            src.push_str("type Rich = {\n");
            for f in &fields {
                if *f == "reply" {
                    src.push_str("    reply: channel<string>\n");
                } else {
                    src.push_str(&format!("    {f}: {ty}\n"));
                }
            }
            src.push_str("}\n\n");
            src.push_str("fn serve(reqs: channel<Rich>, n: int) {\n    for i in n {\n        let r = reqs.read()\n");
            src.push_str(&maybe_pause(rng, "        "));
            src.push_str("        r.reply.write(show(r.va) .. \"/\" .. show(r.vb) .. \"/\" .. show(r.vc))\n");
            src.push_str(&maybe_work(rng, "        "));
            src.push_str("    }\n}\n\n");
            src.push_str("let reqs: channel<Rich> = channel()\n");
            src.push_str(&format!("task {{\n    serve(reqs, {m})\n}}\n"));
            let args: Vec<&str> = fields
                .iter()
                .map(|f| match *f {
                    "reply" => "mine",
                    "vb" => "y",
                    _ => "x",
                })
                .collect();
            src.push_str(&format!(
                "for i in {m} {{\n    let mine: channel<string> = channel()\n    let x = mk(0, i)\n    let y = mk(0, i + 50)\n    reqs.write(Rich({}))\n",
                args.join(", ")
            ));
            src.push_str(&maybe_pause(rng, "    "));
            src.push_str(&format!("    {}}}\n", say(0, "mine.read()").replace("obs(0,", "obs(i,").replace("[0]", "[\" .. i .. \"]")));
            for i in 0..m {
                let (x, y) = (kind.mk(0, i), kind.mk(0, i + 50));
                obs.push((i, format!("{}/{}/{}", x.show(), y.show(), x.show())));
            }
        }
        Shape::QueuedCycle => {
            src.push_str(&format!("type Link = {{\n    val: {ty}\n    next: channel<Link>\n}}\n\n"));
            src.push_str("fn relay(inp: channel<Link>, n: int) {\n    for i in n {\n        let l = inp.read()\n        l.next.write(Link(touch(l.val, 2), inp))\n    }\n}\n\n");
            src.push_str("fn build_cycle(carrier: channel<Link>) {\n    let p: channel<Link> = channel()\n    let q: channel<Link> = channel()\n    p.write(Link(mk(1, 1), q))\n    q.write(Link(mk(1, 2), p))\n    carrier.write(Link(mk(1, 3), p))\n}\n\n");
            if rng.chance(1, 4) {
                // only a task that has long finished ever put a handle into a message: two
                // queues referring to each other, reachable through a carrier nobody reads
                src.push_str("let carrier: channel<Link> = channel()\ntask {\n    build_cycle(carrier)\n}\n");
                src.push_str(&format!("work({})\n", rng.range(40, 90)));
                src.push_str(&maybe_pause(rng, ""));
                src.push_str(&say(0, "\"quiet\""));
                obs.push((0, "quiet".to_string()));
                projection = Projection::MainOnly;
                drains = false;
            } else {
            src.push_str("let c: channel<Link> = channel()\nlet d: channel<Link> = channel()\n");
            src.push_str("task {\n    relay(d, 1)\n}\n");
            if rng.chance(2, 3) {
                // a task builds two queues referring to each other, hands the only way in to a
                // carrier channel and finishes; nobody ever reads the carrier
                src.push_str("let carrier: channel<Link> = channel()\ntask {\n    build_cycle(carrier)\n}\n");
            }
            src.push_str("c.write(Link(mk(0, 1), c))\n");
            src.push_str("c.write(Link(mk(0, 2), d))\n");
            src.push_str("d.write(Link(mk(0, 3), c))\n");
            src.push_str(&maybe_pause(rng, ""));
            src.push_str("let first = c.read()\n");
            src.push_str(&say(0, "show(first.val)"));
            src.push_str(&maybe_work(rng, ""));
            obs.push((0, kind.mk(0, 1).show()));
            projection = Projection::MainOnly;
            drains = false;
            }
        }
        Shape::FailingTask => {
            let ok = rng.range(1, 3) as i64;
            src.push_str(&format!("fn produce_then_fail(out: channel<{ty}>, n: int, d: int) {{\n    for i in n {{\n        out.write(mk(1, i))\n    }}\n    let boom = 10 / d\n    out.write(mk(1, 99 + boom))\n}}\n\n"));
            src.push_str(&format!("let c: channel<{ty}> = channel()\n"));
            src.push_str(&format!("task {{\n    produce_then_fail(c, {ok}, 0)\n}}\n"));
            src.push_str(&maybe_pause(rng, ""));
            src.push_str(&format!("for i in {ok} {{\n    let y = c.read()\n    {}}}\n", say(0, "show(y)").replace("obs(0,", "obs(i,").replace("[0]", "[\" .. i .. \"]")));
            src.push_str(&maybe_work(rng, ""));
            for i in 0..ok {
                obs.push((i, kind.mk(1, i).show()));
            }
            projection = Projection::MainOnly;
            if rng.chance(1, 4) {
                // main itself fails afterwards: the error must be reported, not completion
                src.push_str("let z = 7 / (1 - 1)\n");
                error_prefix = Some("error: division by zero".to_string());
            }
        }
    }
    src.push_str("1\n");
    let mut w = Workload::new(
        if print_from_main { "kpn" } else { "conc" },
        format!("{shape:?} over channel<{kind_descr}> x{m}"),
        src,
    );
    w.has_tasks = true;
    w.projection = projection.clone();
    if print_from_main {
        // observations are prints here; compared with the reference run only
        w.projection = if projection == Projection::None { Projection::None } else { Projection::MainOnly };
        w.expect.main_obs = None;
    } else if sorted_only {
        w.expect.main_obs_sorted = Some(obs);
    } else {
        w.expect.main_obs = Some(obs);
    }
    w.expect.drains = drains;
    if error_prefix.is_some() {
        w.expect.error_prefix = error_prefix;
    } else {
        w.expect.final_top = Some("1".into());
    }
    w
}
