//! Random value shapes: a small algebra of types (scalars, arrays, options, tuples, structs,
//! user enums) nested up to a bound, with the Abra code to declare, construct, render and mutate a
//! value of such a type, and a Rust model of the same value. Used wherever "each kind of value,
//! nested up to a bound" matters (captures: C08; channel messages: C09).

use crate::rng::Rng;

#[derive(Clone, Debug)]
pub enum Ty {
    Int,
    Str,
    Bool,
    Float,
    Arr(Box<Ty>),
    Opt(Box<Ty>),
    Tup(Box<Ty>, Box<Ty>),
    /// struct `R<id>` with fields f0, f1, ...
    Rec(usize, Vec<Ty>),
    /// enum `S<id> = Lf<id>(string) | Nd<id>(T, string)`
    Sum(usize, Box<Ty>),
}

#[derive(Clone, Debug, PartialEq)]
pub enum Val {
    Int(i64),
    Str(String),
    Bool(bool),
    /// stored as bits so that the model can be compared exactly
    Float(u64),
    Arr(Vec<Val>),
    Opt(Option<Box<Val>>),
    Tup(Box<Val>, Box<Val>),
    Rec(Vec<Val>),
    Leaf(String),
    Node(Box<Val>, String),
}

/// one step from a value to a part of it
#[derive(Clone, Debug)]
pub enum Step {
    Elem(usize),
    Field(usize),
    Some,
    Payload,
    First,
    Second,
}

#[derive(Clone, Debug)]
pub enum Action {
    Push(Val, String),
    SetElem(usize, Val, String),
    SetField(usize, Val, String),
}

/// an in-place mutation of a part of a value: where, and what
#[derive(Clone, Debug)]
pub struct Mutation {
    pub path: Vec<Step>,
    pub action: Action,
}

impl Mutation {
    /// apply to a value of the same shape (the path must exist)
    pub fn apply(&self, val: &mut Val) {
        let mut cur = val;
        for st in &self.path {
            cur = match (st, cur) {
                (Step::Elem(i), Val::Arr(xs)) => &mut xs[*i],
                (Step::Field(k), Val::Rec(fs)) => &mut fs[*k],
                (Step::Some, Val::Opt(Some(x))) => x.as_mut(),
                (Step::Payload, Val::Node(x, _)) => x.as_mut(),
                (Step::First, Val::Tup(a, _)) => a.as_mut(),
                (Step::Second, Val::Tup(_, b)) => b.as_mut(),
                _ => return,
            };
        }
        match (&self.action, cur) {
            (Action::Push(v, _), Val::Arr(xs)) => xs.push(v.clone()),
            (Action::SetElem(i, v, _), Val::Arr(xs)) => xs[*i] = v.clone(),
            (Action::SetField(k, v, _), Val::Rec(fs)) => fs[*k] = v.clone(),
            _ => {}
        }
    }
}

pub struct Gen {
    next_id: usize,
    next_fn: usize,
    /// type declarations and generated functions, to be placed before the main program
    pub decls: String,
}

impl Ty {
    pub fn name(&self) -> String {
        match self {
            Ty::Int => "int".into(),
            Ty::Str => "string".into(),
            Ty::Bool => "bool".into(),
            Ty::Float => "float".into(),
            Ty::Arr(t) => format!("array<{}>", t.name()),
            Ty::Opt(t) => format!("option<{}>", t.name()),
            Ty::Tup(a, b) => format!("({}, {})", a.name(), b.name()),
            Ty::Rec(id, _) => format!("Rr{id}"),
            Ty::Sum(id, _) => format!("Ss{id}"),
        }
    }

    pub fn describe(&self) -> String {
        match self {
            Ty::Int => "int".into(),
            Ty::Str => "str".into(),
            Ty::Bool => "bool".into(),
            Ty::Float => "float".into(),
            Ty::Arr(t) => format!("[{}]", t.describe()),
            Ty::Opt(t) => format!("opt<{}>", t.describe()),
            Ty::Tup(a, b) => format!("({},{})", a.describe(), b.describe()),
            Ty::Rec(_, fs) => format!("{{{}}}", fs.iter().map(|f| f.describe()).collect::<Vec<_>>().join(",")),
            Ty::Sum(_, t) => format!("enum<{}>", t.describe()),
        }
    }

    /// does a value of this type contain anything that can be mutated in place?
    pub fn has_mutable(&self) -> bool {
        match self {
            Ty::Int | Ty::Str | Ty::Bool | Ty::Float => false,
            Ty::Arr(_) | Ty::Rec(..) => true,
            Ty::Opt(t) | Ty::Sum(_, t) => t.has_mutable(),
            Ty::Tup(a, b) => a.has_mutable() || b.has_mutable(),
        }
    }
}

impl Val {
    pub fn show(&self) -> String {
        match self {
            Val::Int(n) => n.to_string(),
            Val::Str(s) => s.clone(),
            Val::Bool(b) => b.to_string(),
            Val::Float(bits) => f64::from_bits(*bits).to_string(),
            Val::Arr(xs) => format!("[{}]", xs.iter().map(|x| format!("{},", x.show())).collect::<String>()),
            Val::Opt(Some(x)) => format!("some({})", x.show()),
            Val::Opt(None) => "none".into(),
            Val::Tup(a, b) => format!("({};{})", a.show(), b.show()),
            Val::Rec(fs) => format!("{{{}}}", fs.iter().map(|x| format!("{}|", x.show())).collect::<String>()),
            Val::Leaf(s) => format!("L:{s}"),
            Val::Node(v, s) => format!("N:{}:{s}", v.show()),
        }
    }
}

impl Default for Gen {
    fn default() -> Self {
        Self::new()
    }
}

impl Gen {
    pub fn new() -> Self {
        Gen {
            next_id: 0,
            next_fn: 0,
            decls: String::new(),
        }
    }

    /// a random type of at most `depth` constructor levels; declares the structs / enums it uses
    pub fn ty(&mut self, rng: &mut Rng, depth: u32) -> Ty {
        if depth == 0 {
            return match rng.below(6) {
                0 | 1 => Ty::Int,
                2 | 3 => Ty::Str,
                4 => Ty::Bool,
                _ => Ty::Float,
            };
        }
        match rng.below(8) {
            0 => {
                if rng.chance(1, 3) {
                    Ty::Float
                } else {
                    Ty::Int
                }
            }
            1 => {
                if rng.chance(1, 4) {
                    Ty::Bool
                } else {
                    Ty::Str
                }
            }
            2 | 3 => Ty::Arr(Box::new(self.ty(rng, depth - 1))),
            4 => Ty::Opt(Box::new(self.ty(rng, depth - 1))),
            5 => Ty::Tup(Box::new(self.ty(rng, depth - 1)), Box::new(self.ty(rng, depth - 1))),
            6 => {
                let n = rng.range(1, 3) as usize;
                let fields: Vec<Ty> = (0..n).map(|_| self.ty(rng, depth - 1)).collect();
                let id = self.next_id;
                self.next_id += 1;
                self.decls.push_str(&format!("type Rr{id} = {{\n"));
                for (i, f) in fields.iter().enumerate() {
                    self.decls.push_str(&format!("    f{i}: {}\n", f.name()));
                }
                self.decls.push_str("}\n");
                Ty::Rec(id, fields)
            }
            _ => {
                let inner = self.ty(rng, depth - 1);
                let id = self.next_id;
                self.next_id += 1;
                self.decls.push_str(&format!(
                    "type Ss{id} =\n    | Lf{id}(string)\n    | Nd{id}({}, string)\n",
                    inner.name()
                ));
                Ty::Sum(id, Box::new(inner))
            }
        }
    }

    /// a type that contains at least one mutable object below its root or at it
    pub fn mutable_ty(&mut self, rng: &mut Rng, depth: u32) -> Ty {
        loop {
            let saved = (self.next_id, self.decls.len());
            let t = self.ty(rng, depth);
            if t.has_mutable() {
                return t;
            }
            self.next_id = saved.0;
            self.decls.truncate(saved.1);
        }
    }

    /// a value of `ty` and the Abra expression that constructs it (heap strings are built at run
    /// time so that they are objects, not constants)
    pub fn value(&mut self, rng: &mut Rng, ty: &Ty) -> (Val, String) {
        match ty {
            Ty::Int => {
                let n = match rng.below(8) {
                    0 => -(rng.below(90) as i64) - 1,
                    1 => (1i64 << 40) + rng.below(90) as i64,
                    2 => -(1i64 << 53) - 1,
                    _ => rng.below(90) as i64,
                };
                (Val::Int(n), if n < 0 { format!("(0 - {})", -n) } else { n.to_string() })
            }
            Ty::Str => {
                let n = rng.below(90);
                (Val::Str(format!("s{n}")), format!("(\"s\" .. {n})"))
            }
            Ty::Bool => {
                let b = rng.chance(1, 2);
                (Val::Bool(b), b.to_string())
            }
            Ty::Float => {
                let f: f64 = *rng.pick(&[0.0, 1.5, -2.25, 100.125, 3.0, -0.5, 1048576.5]);
                let src = if f < 0.0 { format!("(0.0 - {})", -f) } else if f.fract() == 0.0 { format!("{f}.0") } else { f.to_string() };
                (Val::Float(f.to_bits()), src)
            }
            Ty::Arr(t) => {
                // at least one element, so that the element type is always inferable and there
                // is something to look at
                let n = rng.range(1, 3);
                let (vals, exprs): (Vec<Val>, Vec<String>) = (0..n).map(|_| self.value(rng, t)).unzip();
                (Val::Arr(vals), format!("[{}]", exprs.join(", ")))
            }
            Ty::Opt(t) => {
                if rng.chance(3, 4) {
                    let (v, e) = self.value(rng, t);
                    (Val::Opt(Some(Box::new(v))), format!("option.some({e})"))
                } else {
                    (Val::Opt(None), "option.none".to_string())
                }
            }
            Ty::Tup(a, b) => {
                let (va, ea) = self.value(rng, a);
                let (vb, eb) = self.value(rng, b);
                (Val::Tup(Box::new(va), Box::new(vb)), format!("({ea}, {eb})"))
            }
            Ty::Rec(id, fields) => {
                let (vals, exprs): (Vec<Val>, Vec<String>) = fields.iter().map(|f| self.value(rng, f)).unzip();
                (Val::Rec(vals), format!("Rr{id}({})", exprs.join(", ")))
            }
            Ty::Sum(id, t) => {
                if rng.chance(3, 4) {
                    let (v, e) = self.value(rng, t);
                    let n = rng.below(90);
                    (Val::Node(Box::new(v), format!("t{n}")), format!("Ss{id}.Nd{id}({e}, \"t\" .. {n})"))
                } else {
                    let n = rng.below(90);
                    (Val::Leaf(format!("l{n}")), format!("Ss{id}.Lf{id}(\"l\" .. {n})"))
                }
            }
        }
    }

    /// emits `fn show_<k>(x: T) -> string` (and helpers for nested types); returns its name
    pub fn show_fn(&mut self, ty: &Ty) -> String {
        let k = self.next_fn;
        self.next_fn += 1;
        let name = format!("show_{k}");
        let body = match ty {
            Ty::Int | Ty::Bool | Ty::Float => "    \"\" .. x\n".to_string(),
            Ty::Str => "    x\n".to_string(),
            Ty::Arr(t) => {
                let inner = self.show_fn(t);
                format!("    var s = \"[\"\n    for e in x {{\n        s = s .. {inner}(e) .. \",\"\n    }}\n    s .. \"]\"\n")
            }
            Ty::Opt(t) => {
                let inner = self.show_fn(t);
                format!("    match x {{\n        .some(v) -> \"some(\" .. {inner}(v) .. \")\",\n        .none -> \"none\"\n    }}\n")
            }
            Ty::Tup(a, b) => {
                let (fa, fb) = (self.show_fn(a), self.show_fn(b));
                format!("    let (a, b) = x\n    \"(\" .. {fa}(a) .. \";\" .. {fb}(b) .. \")\"\n")
            }
            Ty::Rec(_, fields) => {
                let mut s = String::from("    var s = \"{\"\n");
                for (i, f) in fields.iter().enumerate() {
                    let inner = self.show_fn(f);
                    s.push_str(&format!("    s = s .. {inner}(x.f{i}) .. \"|\"\n"));
                }
                s.push_str("    s .. \"}\"\n");
                s
            }
            Ty::Sum(id, t) => {
                let inner = self.show_fn(t);
                format!("    match x {{\n        .Lf{id}(l) -> \"L:\" .. l,\n        .Nd{id}(v, t) -> \"N:\" .. {inner}(v) .. \":\" .. t\n    }}\n")
            }
        };
        self.decls.push_str(&format!("fn {name}(x: {}) -> string {{\n{body}}}\n", ty.name()));
        name
    }

    /// Picks a mutable place inside `val` (an array or a struct, possibly behind options, enum
    /// payloads, tuple components, array elements and struct fields) and what to do there.
    /// Returns None if the value (as opposed to its type) has no reachable mutable place
    /// (e.g. everything mutable is behind a `none`).
    pub fn plan_mutation(&mut self, rng: &mut Rng, ty: &Ty, val: &Val, tag: &str) -> Option<Mutation> {
        let mut path = vec![];
        let action = self.plan(rng, ty, val, tag, &mut path)?;
        Some(Mutation { path, action })
    }

    fn plan(&mut self, rng: &mut Rng, ty: &Ty, val: &Val, tag: &str, path: &mut Vec<Step>) -> Option<Action> {
        match (ty, val) {
            (Ty::Int, _) | (Ty::Str, _) | (Ty::Bool, _) | (Ty::Float, _) => None,
            (Ty::Arr(t), Val::Arr(items)) => {
                if t.has_mutable() && !items.is_empty() && rng.chance(1, 2) {
                    let i = rng.below(items.len() as u64) as usize;
                    path.push(Step::Elem(i));
                    if let Some(a) = self.plan(rng, t, &items[i], tag, path) {
                        return Some(a);
                    }
                    path.pop();
                }
                let (nv, ne) = self.tagged_value(rng, t, tag);
                if !items.is_empty() && rng.chance(1, 2) {
                    Some(Action::SetElem(rng.below(items.len() as u64) as usize, nv, ne))
                } else {
                    Some(Action::Push(nv, ne))
                }
            }
            (Ty::Rec(_, fields), Val::Rec(vals)) => {
                let k = rng.below(fields.len() as u64) as usize;
                if fields[k].has_mutable() && rng.chance(1, 2) {
                    path.push(Step::Field(k));
                    if let Some(a) = self.plan(rng, &fields[k], &vals[k], tag, path) {
                        return Some(a);
                    }
                    path.pop();
                }
                let (nv, ne) = self.tagged_value(rng, &fields[k], tag);
                Some(Action::SetField(k, nv, ne))
            }
            (Ty::Opt(t), Val::Opt(Some(inner))) => {
                path.push(Step::Some);
                let a = self.plan(rng, t, inner, tag, path);
                if a.is_none() {
                    path.pop();
                }
                a
            }
            (Ty::Sum(_, t), Val::Node(inner, _)) => {
                path.push(Step::Payload);
                let a = self.plan(rng, t, inner, tag, path);
                if a.is_none() {
                    path.pop();
                }
                a
            }
            (Ty::Tup(a, b), Val::Tup(va, vb)) => {
                let first = a.has_mutable() && (!b.has_mutable() || rng.chance(1, 2));
                let order: [(Step, &Ty, &Val); 2] = if first {
                    [(Step::First, a.as_ref(), va.as_ref()), (Step::Second, b.as_ref(), vb.as_ref())]
                } else {
                    [(Step::Second, b.as_ref(), vb.as_ref()), (Step::First, a.as_ref(), va.as_ref())]
                };
                for (st, t, v) in order {
                    path.push(st);
                    if let Some(act) = self.plan(rng, t, v, tag, path) {
                        return Some(act);
                    }
                    path.pop();
                }
                None
            }
            _ => None,
        }
    }

    /// emits `fn mutate_<k>(x: T)` performing `m` on its argument; returns the function name
    pub fn mutation_fn(&mut self, ty: &Ty, m: &Mutation) -> String {
        let mut uniq = 0usize;
        let body = Self::render(ty, &m.path, &m.action, "x", 1, &mut uniq);
        let k = self.next_fn;
        self.next_fn += 1;
        let name = format!("mutate_{k}");
        self.decls.push_str(&format!("fn {name}(x: {}) {{\n{body}}}\n", ty.name()));
        name
    }

    fn render(ty: &Ty, path: &[Step], action: &Action, expr: &str, ind: usize, uniq: &mut usize) -> String {
        let pad = "    ".repeat(ind);
        *uniq += 1;
        let u = *uniq;
        let Some((step, rest)) = path.split_first() else {
            return match action {
                Action::Push(_, e) => format!("{pad}{expr}.push({e})\n"),
                Action::SetElem(i, _, e) => format!("{pad}{expr}[{i}] = {e}\n"),
                Action::SetField(k, _, e) => format!("{pad}{expr}.f{k} = {e}\n"),
            };
        };
        match (step, ty) {
            (Step::Elem(i), Ty::Arr(t)) => Self::render(t, rest, action, &format!("{expr}[{i}]"), ind, uniq),
            (Step::Field(k), Ty::Rec(_, fields)) => Self::render(&fields[*k], rest, action, &format!("{expr}.f{k}"), ind, uniq),
            (Step::Some, Ty::Opt(t)) => {
                let code = Self::render(t, rest, action, &format!("o{u}"), ind + 2, uniq);
                format!("{pad}match {expr} {{\n{pad}    .some(o{u}) -> {{\n{code}{pad}    }},\n{pad}    .none -> {{}}\n{pad}}}\n")
            }
            (Step::Payload, Ty::Sum(id, t)) => {
                let code = Self::render(t, rest, action, &format!("p{u}"), ind + 2, uniq);
                format!("{pad}match {expr} {{\n{pad}    .Nd{id}(p{u}, _) -> {{\n{code}{pad}    }},\n{pad}    .Lf{id}(_) -> {{}}\n{pad}}}\n")
            }
            (Step::First, Ty::Tup(a, _)) => {
                let code = Self::render(a, rest, action, &format!("ta{u}"), ind, uniq);
                format!("{pad}let (ta{u}, tb{u}) = {expr}\n{code}")
            }
            (Step::Second, Ty::Tup(_, b)) => {
                let code = Self::render(b, rest, action, &format!("tb{u}"), ind, uniq);
                format!("{pad}let (ta{u}, tb{u}) = {expr}\n{code}")
            }
            _ => String::new(),
        }
    }

    /// plan a mutation, apply it to the model value and emit the Abra function doing the same
    pub fn mutate_fn(&mut self, rng: &mut Rng, ty: &Ty, val: &mut Val, tag: &str) -> Option<String> {
        let m = self.plan_mutation(rng, ty, val, tag)?;
        m.apply(val);
        Some(self.mutation_fn(ty, &m))
    }

    /// a fresh value whose strings / ints are recognisably from `tag`
    fn tagged_value(&mut self, rng: &mut Rng, ty: &Ty, tag: &str) -> (Val, String) {
        match ty {
            Ty::Int => {
                let n = 100 + rng.below(800) as i64;
                (Val::Int(n), n.to_string())
            }
            Ty::Str => {
                let n = rng.below(90);
                (Val::Str(format!("{tag}{n}")), format!("(\"{tag}\" .. {n})"))
            }
            _ => self.value(rng, ty),
        }
    }
}
