//! The driver: fans cells out over worker slots, aggregates their reports, minimises and files
//! violations, writes the evidence file and decides the exit code. It never compiles or runs a
//! program itself.

use crate::cell::{CellReport, CellViolation};
use crate::embed::{GcRun, Trace};
use crate::plan::{self, Tier};
use crate::replay::Replay;
use crate::rng::mix_str;
use serde::{Deserialize, Serialize};
use serde_json::json;
use std::collections::{BTreeMap, BTreeSet};
use std::path::{Path, PathBuf};
use std::process::{Command, Stdio};
use std::sync::Mutex;
use std::sync::atomic::{AtomicU64, Ordering};
use std::time::{Duration, Instant};

pub const VERIF_DIR: &str = "/verif";

#[derive(Serialize, Deserialize, Clone, Debug, Default)]
pub struct KnownFinding {
    pub property: String,
    pub oracle: String,
    /// workload family the finding is keyed to
    pub family: String,
    /// substring of the violation message that identifies the failing input / history
    pub key: String,
    pub what: String,
}

#[derive(Serialize, Deserialize, Clone, Debug, Default)]
pub struct KnownFindings {
    pub findings: Vec<KnownFinding>,
    pub fixed: Vec<String>,
}

fn load_known() -> KnownFindings {
    let p = Path::new(VERIF_DIR).join("known_findings.json");
    match std::fs::read_to_string(&p) {
        Ok(s) => serde_json::from_str(&s).unwrap_or_else(|e| {
            println!("HARNESS-ERROR: {} does not parse: {e}", p.display());
            std::process::exit(2)
        }),
        Err(_) => KnownFindings::default(),
    }
}

#[allow(dead_code)]
pub struct CellRun {
    pub index: u64,
    pub seed: u64,
    pub report: Option<CellReport>,
    /// the process died (signal / abort); the last run it had started
    pub aborted: Option<(String, i64)>,
    pub wall: Duration,
}

fn exe() -> PathBuf {
    std::env::current_exe().expect("current_exe")
}

pub fn cell_seed(verif_seed: u64, prop: &str, index: u64) -> u64 {
    crate::rng::mix(mix_str(verif_seed, prop), index)
}

pub fn spawn_cell(prop: &str, tier: Tier, seed: u64, index: u64, extra: &[String]) -> CellRun {
    use std::io::Read;
    let t0 = Instant::now();
    let mut child = Command::new(exe())
        .arg("cell")
        .args(["--prop", prop, "--seed", &seed.to_string(), "--index", &index.to_string(), "--tier", tier.name()])
        .args(extra)
        .stdin(Stdio::null())
        .stdout(Stdio::piped())
        .stderr(Stdio::piped())
        .spawn()
        .expect("spawn cell");
    let mut out_pipe = child.stdout.take().unwrap();
    let mut err_pipe = child.stderr.take().unwrap();
    let out_reader = std::thread::spawn(move || {
        let mut s = String::new();
        let _ = out_pipe.read_to_string(&mut s);
        s
    });
    let err_reader = std::thread::spawn(move || {
        let mut s = String::new();
        let _ = err_pipe.read_to_string(&mut s);
        s
    });
    // a VM that never returns from run_n_steps cannot be caught by the step cap; the cell is
    // killed after a wall-clock limit far above anything a healthy cell needs (seconds; the
    // slowest cells seen on a loaded machine took about a minute)
    let limit = match tier {
        Tier::Quick => Duration::from_secs(900),
        Tier::Thorough => Duration::from_secs(1800),
    };
    let mut timed_out = false;
    let status = loop {
        match child.try_wait() {
            Ok(Some(st)) => break Some(st),
            Ok(None) => {
                if t0.elapsed() > limit {
                    let _ = child.kill();
                    let _ = child.wait();
                    timed_out = true;
                    break None;
                }
                std::thread::sleep(Duration::from_millis(5));
            }
            Err(_) => break None,
        }
    };
    let stdout = out_reader.join().unwrap_or_default();
    let stderr = err_reader.join().unwrap_or_default();
    let mut last_run: i64 = -1;
    let mut report = None;
    for line in stdout.lines() {
        if let Some(n) = line.strip_prefix("RUN ") {
            last_run = n.trim().parse().unwrap_or(last_run);
        } else if let Some(j) = line.strip_prefix("REPORT ") {
            report = serde_json::from_str::<CellReport>(j).ok();
        }
    }
    let aborted = if report.is_none() {
        Some((
            if timed_out {
                format!("cell process did not finish within {} s and was killed (the VM never returned control)", limit.as_secs())
            } else {
                format!(
                    "cell process ended with {} before reporting; stderr tail: {}",
                    status.map(|s| s.to_string()).unwrap_or_else(|| "unknown status".into()),
                    stderr.lines().rev().take(3).collect::<Vec<_>>().join(" | ")
                )
            },
            last_run,
        ))
    } else {
        None
    };
    CellRun {
        index,
        seed,
        report,
        aborted,
        wall: t0.elapsed(),
    }
}

fn repo_rev() -> String {
    let rev = Command::new("git")
        .args(["-C", "/repo", "rev-parse", "--short", "HEAD"])
        .output()
        .ok()
        .map(|o| String::from_utf8_lossy(&o.stdout).trim().to_string())
        .unwrap_or_default();
    let dirty = Command::new("git")
        .args(["-C", "/repo", "status", "--porcelain", "--untracked-files=no"])
        .output()
        .ok()
        .map(|o| !o.stdout.is_empty())
        .unwrap_or(false);
    format!("{rev}{}", if dirty { "+dirty" } else { "" })
}

// ------------------------------------------------------------------------------------------------
// replay execution and minimisation (each candidate runs in a fresh process)

fn replays_dir() -> PathBuf {
    let d = Path::new(VERIF_DIR).join("replays");
    let _ = std::fs::create_dir_all(&d);
    d
}

/// 1 = reproduced, 0 = not reproduced, anything else = rejected / broken
fn run_replay_file(path: &Path) -> i32 {
    let Ok(mut child) = Command::new(exe())
        .arg("replay")
        .arg(path)
        .arg("--quiet")
        .stdin(Stdio::null())
        .stdout(Stdio::null())
        .stderr(Stdio::null())
        .spawn()
    else {
        return 3;
    };
    // a minimisation candidate can be a program the compiler or the VM never finishes with
    let deadline = Instant::now() + Duration::from_secs(20);
    loop {
        match child.try_wait() {
            Ok(Some(status)) => return status.code().unwrap_or(3),
            Ok(None) => {
                if Instant::now() > deadline {
                    let _ = child.kill();
                    let _ = child.wait();
                    return 3;
                }
                std::thread::sleep(Duration::from_millis(2));
            }
            Err(_) => return 3,
        }
    }
}

struct Minimiser {
    scratch: PathBuf,
    deadline: Instant,
    tried: u64,
}

impl Minimiser {
    fn reproduces(&mut self, r: &Replay) -> bool {
        if Instant::now() > self.deadline {
            return false;
        }
        self.tried += 1;
        std::fs::write(&self.scratch, serde_json::to_string(r).unwrap()).unwrap();
        run_replay_file(&self.scratch) == 1
    }

    /// delta debugging over a list: remove chunks while the violation persists
    fn ddmin<T: Clone>(&mut self, items: &[T], mut test: impl FnMut(&mut Self, &[T]) -> bool) -> Vec<T> {
        let mut cur: Vec<T> = items.to_vec();
        let mut chunk = cur.len().div_ceil(2).max(1);
        while !cur.is_empty() && Instant::now() < self.deadline {
            let mut i = 0;
            let mut removed_any = false;
            while i < cur.len() {
                let end = (i + chunk).min(cur.len());
                let mut cand = cur[..i].to_vec();
                cand.extend_from_slice(&cur[end..]);
                if test(self, &cand) {
                    cur = cand;
                    removed_any = true;
                } else {
                    i = end;
                }
            }
            if chunk == 1 && !removed_any {
                break;
            }
            if !removed_any || chunk > cur.len() {
                chunk = (chunk / 2).max(1);
            }
        }
        cur
    }
}

fn with_trace(r: &Replay, t: Trace) -> Replay {
    let mut c = r.clone();
    c.trace = Some(t);
    c
}

pub fn minimise(r: &Replay, budget: Duration) -> Replay {
    if r.kind != "trace" {
        return r.clone();
    }
    let scratch = replays_dir().join(format!(".candidate-{}-{}.json", r.property, std::process::id()));
    let mut m = Minimiser {
        scratch: scratch.clone(),
        deadline: Instant::now() + budget,
        tried: 0,
    };
    let mut best = r.clone();
    if !m.reproduces(&best) {
        best.notes.push("the recorded trace did not reproduce in a fresh process".into());
        let _ = std::fs::remove_file(&scratch);
        return best;
    }
    let w0 = best.trace.as_ref().map(|t| t.weight()).unwrap_or(0);
    for _round in 0..3 {
        let before = (
            best.trace.as_ref().map(|t| t.weight()).unwrap_or(0),
            best.workload.as_ref().map(|w| w.main_src.len()).unwrap_or(0),
        );
        // ---- schedule: drop whole dimensions, then delta-debug each list -------------------------
        let t = best.trace.clone().unwrap();
        for dim in 0..3 {
            let mut c = t.clone();
            match dim {
                0 => c.defers.clear(),
                1 => c.gc.clear(),
                _ => c.budgets.clear(),
            }
            if c != t && m.reproduces(&with_trace(&best, c.clone())) {
                best.trace = Some(c);
                break;
            }
        }
        let t = best.trace.clone().unwrap();
        let gc = m.ddmin(&t.gc, |m, cand| {
            let mut c = t.clone();
            c.gc = cand.to_vec();
            m.reproduces(&with_trace(&best, c))
        });
        let mut t = best.trace.clone().unwrap();
        t.gc = gc;
        best.trace = Some(t.clone());
        let defers = m.ddmin(&t.defers, |m, cand| {
            let mut c = t.clone();
            c.defers = cand.to_vec();
            m.reproduces(&with_trace(&best, c))
        });
        t.defers = defers;
        best.trace = Some(t.clone());
        let budgets = m.ddmin(&t.budgets, |m, cand| {
            let mut c = t.clone();
            c.budgets = cand.to_vec();
            m.reproduces(&with_trace(&best, c))
        });
        t.budgets = budgets;
        best.trace = Some(t.clone());
        // ---- magnitudes ----------------------------------------------------------------------------
        for i in 0..t.gc.len() {
            let g: GcRun = t.gc[i];
            let mut cands: Vec<GcRun> = vec![];
            if g.n > 1 {
                cands.push(GcRun { n: 1, ..g });
                cands.push(GcRun { n: g.n / 2, ..g });
            }
            if g.mark > 1 {
                cands.push(GcRun { mark: 1, ..g });
            }
            if g.sweep > 1 {
                cands.push(GcRun { sweep: 1, ..g });
            }
            for cand in cands {
                let mut c = t.clone();
                c.gc[i] = cand;
                if m.reproduces(&with_trace(&best, c.clone())) {
                    t = c;
                    best.trace = Some(t.clone());
                    break;
                }
            }
        }
        // ---- workload: drop lines of the program (model expectations no longer apply, so this is
        // only done for violations judged without the generator's model) -----------------------------
        let model_free = !best.oracle.starts_with("model:");
        if model_free && let Some(w) = best.workload.clone() {
            let lines: Vec<String> = w.main_src.lines().map(|l| l.to_string()).collect();
            let kept = m.ddmin(&lines, |m, cand| {
                let mut c = best.clone();
                let mut cw = w.clone();
                cw.main_src = cand.join("\n") + "\n";
                cw.expect.main_obs = None;
                cw.expect.main_obs_sorted = None;
                cw.expect.final_top = None;
                cw.expect.main_host_calls = None;
                cw.expect.error_prefix = None;
                cw.expect.error_line = None;
                cw.expect.error_file = None;
                c.workload = Some(cw);
                m.reproduces(&c)
            });
            if kept.len() < lines.len() {
                let mut cw = w.clone();
                cw.main_src = kept.join("\n") + "\n";
                cw.expect.main_obs = None;
                cw.expect.main_obs_sorted = None;
                cw.expect.final_top = None;
                cw.expect.main_host_calls = None;
                cw.expect.error_prefix = None;
                cw.expect.error_line = None;
                best.workload = Some(cw);
            }
        }
        let after = (
            best.trace.as_ref().map(|t| t.weight()).unwrap_or(0),
            best.workload.as_ref().map(|w| w.main_src.len()).unwrap_or(0),
        );
        if after == before || Instant::now() > m.deadline {
            break;
        }
    }
    // the minimised file must reproduce once more in a fresh process before it is reported
    m.deadline = Instant::now() + Duration::from_secs(60);
    if m.reproduces(&best) {
        best.minimised = true;
        best.notes.push(format!(
            "minimised with {} candidate executions: schedule entries {} -> {}, program {} -> {} lines",
            m.tried,
            w0,
            best.trace.as_ref().map(|t| t.weight()).unwrap_or(0),
            r.workload.as_ref().map(|w| w.main_src.lines().count()).unwrap_or(0),
            best.workload.as_ref().map(|w| w.main_src.lines().count()).unwrap_or(0),
        ));
    } else {
        best = r.clone();
        best.notes.push("minimised candidate failed its final fresh-process check; reporting the original trace".into());
    }
    let _ = std::fs::remove_file(&scratch);
    best
}

// ------------------------------------------------------------------------------------------------
// a property check

#[derive(Default)]
struct Aggregate {
    cells: u64,
    rejected: u64,
    corpus_rejected: u64,
    rejected_reasons: BTreeMap<String, u64>,
    runs: u64,
    inconclusive: u64,
    hashes: BTreeSet<u64>,
    sim_steps: u64,
    idle_turns: u64,
    calls: u64,
    counters: BTreeMap<String, u64>,
    phase_instr: BTreeSet<(u8, String)>,
    samples: Vec<serde_json::Value>,
    exhaustive: BTreeMap<String, u64>,
    families: BTreeMap<String, u64>,
    violations: Vec<(u64, u64, CellReport, CellViolation)>,
    aborted: Vec<(u64, u64, String, i64)>,
    nondeterministic: Vec<String>,
    determinism_pairs: u64,
}

pub fn check(prop: &str, tier: Tier, verif_seed: u64) -> i32 {
    let t0 = Instant::now();
    let known = load_known();
    let n_cells = plan::n_cells(prop, tier);
    let n_double = plan::n_determinism_cells(prop, tier).min(n_cells);
    let extra_inputs = plan::prepare_inputs(prop, tier);
    let workers = std::thread::available_parallelism().map(|n| n.get()).unwrap_or(8).min(16);
    let next = AtomicU64::new(0);
    let agg = Mutex::new(Aggregate::default());
    let wall_cap = plan::wall_cap(prop, tier);
    std::thread::scope(|scope| {
        for _ in 0..workers {
            scope.spawn(|| {
                loop {
                    let i = next.fetch_add(1, Ordering::SeqCst);
                    if i >= n_cells || t0.elapsed() > wall_cap {
                        break;
                    }
                    let seed = cell_seed(verif_seed, prop, i);
                    let extra = extra_inputs.args_for(i);
                    let run = spawn_cell(prop, tier, seed, i, &extra);
                    // determinism self-check: the first cells are executed twice, in two processes
                    let second = if i < n_double {
                        Some(spawn_cell(prop, tier, seed, i, &extra))
                    } else {
                        None
                    };
                    let mut a = agg.lock().unwrap();
                    a.cells += 1;
                    if let Some(second) = second {
                        a.determinism_pairs += 1;
                        let x = run.report.as_ref().map(|r| (r.hashes_nontrivial.clone(), r.runs, r.sim_steps, r.counters.clone(), r.violations.len()));
                        let y = second.report.as_ref().map(|r| (r.hashes_nontrivial.clone(), r.runs, r.sim_steps, r.counters.clone(), r.violations.len()));
                        if x != y {
                            a.nondeterministic.push(format!("cell {i} (seed {seed}) differs between two executions"));
                        }
                    }
                    if let Some((why, last_run)) = run.aborted {
                        a.aborted.push((i, seed, why, last_run));
                        continue;
                    }
                    let rep = run.report.unwrap();
                    *a.families.entry(rep.family.clone()).or_insert(0) += 1;
                    if let Some(why) = &rep.rejected {
                        if rep.family == "corpus" {
                            // many corpus programs are compile-failure tests; not a harness problem
                            a.corpus_rejected += 1;
                            continue;
                        }
                        a.rejected += 1;
                        let key: String = why.chars().take(100).collect();
                        *a.rejected_reasons.entry(key).or_insert(0) += 1;
                        continue;
                    }
                    a.runs += rep.runs;
                    a.inconclusive += rep.inconclusive;
                    a.sim_steps += rep.sim_steps;
                    a.idle_turns += rep.idle_turns;
                    a.calls += rep.calls;
                    for h in &rep.hashes_nontrivial {
                        a.hashes.insert(*h);
                    }
                    for (k, n) in &rep.counters {
                        *a.counters.entry(k.clone()).or_insert(0) += n;
                    }
                    for pi in &rep.phase_instr {
                        a.phase_instr.insert(pi.clone());
                    }
                    for e in &rep.exhaustive {
                        // key = the kind of enumeration; per-cell sizes in parentheses are dropped
                        let key: String = e
                            .split(" (")
                            .next()
                            .unwrap_or(e)
                            .split(" of the ")
                            .next()
                            .unwrap_or(e)
                            .chars()
                            .take(90)
                            .collect();
                        *a.exhaustive.entry(key).or_insert(0) += 1;
                    }
                    if let Some(s) = &rep.sample
                        && a.samples.len() < 3
                        && (i % 7 == 0 || a.samples.is_empty())
                    {
                        a.samples.push(json!({"cell": i, "cell_seed": seed, "sample": s}));
                    }
                    for v in &rep.violations {
                        a.violations.push((i, seed, rep.clone(), v.clone()));
                    }
                }
            });
        }
    });
    let mut a = agg.into_inner().unwrap();
    a.violations.sort_by_key(|(i, _, _, v)| (*i, v.run));
    a.aborted.sort();

    // ---- violations: minimise, file, report --------------------------------------------------------
    let rev = repo_rev();
    let mut exit = 0;
    let mut reported = 0u64;
    let mut known_hits = 0u64;
    let mut seen_signatures: BTreeSet<(String, String)> = BTreeSet::new();
    let min_budget = match tier {
        Tier::Quick => Duration::from_secs(30),
        Tier::Thorough => Duration::from_secs(300),
    };
    for (index, seed, rep, v) in &a.violations {
        if let Some(k) = known.findings.iter().find(|k| {
            k.property == prop && k.oracle == v.oracle && k.family == rep.family && v.msg.contains(&k.key)
        }) {
            if known_hits < 20 {
                println!("KNOWN-FINDING: property={prop} {}", k.what);
            }
            known_hits += 1;
            continue;
        }
        // one report per (oracle, family): further instances are counted, not minimised
        if !seen_signatures.insert((v.oracle.clone(), rep.family.clone())) {
            reported += 1;
            continue;
        }
        let replay = Replay {
            property: prop.to_string(),
            oracle: v.oracle.clone(),
            msg: v.msg.clone(),
            verif_seed,
            cell_seed: *seed,
            cell_index: *index,
            tier: tier.name().to_string(),
            run: v.run,
            kind: "trace".into(),
            workload: rep.workload.clone(),
            spec: Some(v.spec.clone()),
            trace: Some(v.trace.clone()),
            recent_events: v.recent.clone(),
            repo_rev: rev.clone(),
            minimised: false,
            notes: vec![],
        };
        let min = minimise(&replay, min_budget);
        let path = replays_dir().join(format!("{prop}-{seed:016x}-{}.json", if v.run < 0 { "ref".to_string() } else { v.run.to_string() }));
        std::fs::write(&path, serde_json::to_string_pretty(&min).unwrap()).unwrap();
        println!("violation: oracle={} family={} cell={} run={} :: {}", v.oracle, rep.family, index, v.run, v.msg);
        for n in &min.notes {
            println!("  note: {n}");
        }
        println!("VIOLATION property={prop} replay={}", path.display());
        reported += 1;
        exit = 1;
    }
    for (index, seed, why, last_run) in &a.aborted {
        let sig = ("fault:host-process-died".to_string(), "cell".to_string());
        if !seen_signatures.insert(sig) {
            reported += 1;
            continue;
        }
        let replay = Replay {
            property: prop.to_string(),
            oracle: "fault:host-process-died".into(),
            msg: why.clone(),
            verif_seed,
            cell_seed: *seed,
            cell_index: *index,
            tier: tier.name().to_string(),
            run: *last_run,
            kind: "cell".into(),
            workload: None,
            spec: None,
            trace: None,
            recent_events: vec![],
            repo_rev: rev.clone(),
            minimised: false,
            notes: vec![format!("extra cell arguments: {:?}", extra_inputs.args_for(*index))],
        };
        let path = replays_dir().join(format!("{prop}-{seed:016x}-died.json"));
        std::fs::write(&path, serde_json::to_string_pretty(&replay).unwrap()).unwrap();
        println!("violation: the cell process died (cell {index}, during run {last_run}): {why}");
        println!("VIOLATION property={prop} replay={}", path.display());
        reported += 1;
        exit = 1;
    }

    // ---- harness self-diagnosis ----------------------------------------------------------------------
    let mut harness_errors: Vec<String> = vec![];
    harness_errors.extend(a.nondeterministic.iter().cloned());
    if a.cells < n_cells {
        // not an error: the wall-clock cap stopped the fan-out; the evidence says how far it got
    }
    let usable = a.cells - a.rejected - a.aborted.len() as u64;
    if a.cells > 0 && a.rejected * 100 > a.cells * plan::max_rejected_pct(prop) {
        harness_errors.push(format!(
            "{} of {} workloads were rejected (compile error or non-terminating reference): {:?}",
            a.rejected, a.cells, a.rejected_reasons
        ));
    }
    if exit == 0 && usable > 0 {
        for p in plan::required_probes(prop, tier) {
            if a.counters.get(*p).copied().unwrap_or(0) == 0 {
                harness_errors.push(format!("reach probe `{p}` stayed at zero: the workload / fault mix does not reach it"));
            }
        }
    }
    let wall = t0.elapsed().as_secs_f64();

    // ---- evidence ------------------------------------------------------------------------------------
    let split = |prefix: &str| -> BTreeMap<String, u64> {
        a.counters
            .iter()
            .filter(|(k, _)| k.starts_with(prefix))
            .map(|(k, v)| (k.clone(), *v))
            .collect()
    };
    let per_hour = |n: u64| -> u64 { if wall > 0.0 { (n as f64 * 3600.0 / wall) as u64 } else { 0 } };
    let mut samples = a.samples.clone();
    if samples.is_empty() {
        samples.push(json!({"note": "no run completed"}));
    }
    let evidence = json!({
        "property_id": prop,
        "tier": tier.name(),
        "seed": verif_seed,
        "level": plan::level(prop),
        "coverage": {
            "evaluations": a.runs,
            "distinct_nontrivial": a.hashes.len(),
            "rule": plan::rule(prop),
            "samples": samples,
            "exhaustive": false,
            "enumerated_parts_cells": a.exhaustive,
            "enumerated_parts_note": "number of cells (programs) for which each enumeration was carried out completely; the two-phase grid is k1 in {1,2,3,7,64} x about 24 switch points x k2 in {1,5,u32::MAX}",
            "cells": a.cells,
            "cells_planned": n_cells,
            "cells_rejected": a.rejected,
            "corpus_programs_not_usable": a.corpus_rejected,
            "cells_rejected_reasons": a.rejected_reasons,
            "cell_processes_died": a.aborted.len(),
            "workload_families": a.families,
            "runs_inconclusive_step_cap": a.inconclusive,
            "simulated_time": {
                "vm_instructions": a.sim_steps,
                "idle_embedder_turns": a.idle_turns,
                "embedder_calls": a.calls,
                "note": "abra has no clock; simulated time is counted in VM instructions plus embedder turns in which nothing could run"
            },
            "throughput": {
                "simulated_runs_per_hour": per_hour(a.runs),
                "seeds_per_hour": per_hour(a.cells),
                "vm_instructions_per_hour": per_hour(a.sim_steps),
            },
            "faults_fired": split("f"),
            "reach_probes": split("probe_"),
            "collector": split("gc_"),
            "selfchecks": split("selfcheck_"),
            "events": split("ev_").into_iter().chain(split("chan_")).collect::<BTreeMap<_, _>>(),
            "distinct_phase_x_instruction_pairs": a.phase_instr.len(),
            "phase_x_instruction_pairs_mid_cycle": a.phase_instr.iter().filter(|(p, _)| *p != 0).map(|(p, n)| format!("{}:{n}", ["idle", "marking", "sweeping"][*p as usize])).collect::<Vec<_>>(),
            "determinism_selfcheck": {
                "cells_executed_twice_in_separate_processes": a.determinism_pairs,
                "mismatches": a.nondeterministic.len(),
            },
            "known_finding_hits": known_hits,
            "violation_instances": reported,
            "components": {
                "real": ["lexer", "parser", "resolver", "type checker", "exhaustiveness checker", "translator", "optimizer", "assembler", "VM interpreter", "incremental collector (mark, write barrier, sweep)", "round-robin scheduler", "channels", "task spawn / deep copy", "prelude", "generated host bindings"],
                "simulated": ["embedder loop (step budgets, host-call servicing)", "host functions", "collector pacing decisions (through the abra_verif controller seam)", "in-memory file provider (the repository's MockFileProvider)"],
                "absent": ["FFI and its OS threads", "LSP server", "CLI"]
            },
            "harness_errors": harness_errors,
        },
        "assumptions": plan::assumptions(prop),
        "wall_s": wall,
        "violations": reported,
    });
    let ev_dir = Path::new(VERIF_DIR).join("evidence");
    let _ = std::fs::create_dir_all(&ev_dir);
    std::fs::write(
        ev_dir.join(format!("{prop}.json")),
        serde_json::to_string_pretty(&evidence).unwrap(),
    )
    .unwrap();
    println!(
        "{prop} {}: {} cells ({} rejected), {} simulated runs ({} inconclusive), {} distinct non-trivial traces, {} VM instructions, {:.1}s; violations: {}, known findings hit: {}",
        tier.name(), a.cells, a.rejected, a.runs, a.inconclusive, a.hashes.len(), a.sim_steps, wall, reported, known_hits
    );
    if exit == 0 && !harness_errors.is_empty() {
        for e in &harness_errors {
            println!("HARNESS-ERROR: {e}");
        }
        return 2;
    }
    exit
}

// ------------------------------------------------------------------------------------------------
// determinism proof of the simulator itself

fn report_line(prop: &str, tier: Tier, seed: u64, index: u64, extra: &[String]) -> String {
    let out = Command::new(exe())
        .arg("cell")
        .args(["--prop", prop, "--seed", &seed.to_string(), "--index", &index.to_string(), "--tier", tier.name()])
        .args(extra)
        .stdin(Stdio::null())
        .stderr(Stdio::null())
        .output()
        .expect("spawn cell");
    String::from_utf8_lossy(&out.stdout)
        .lines()
        .find(|l| l.starts_with("REPORT "))
        .unwrap_or("NO-REPORT")
        .to_string()
}

/// Every cell is executed twice in separate processes: once in a sequential pass (one worker) and
/// once in a 16-worker pass in shuffled order. The complete cell reports (workload, counters,
/// trace hashes, violations) must be byte-identical.
pub fn selfcheck(props: &[String], cells_per_prop: u64, verif_seed: u64) -> i32 {
    let t0 = Instant::now();
    let mut jobs: Vec<(String, u64, u64, Vec<String>)> = vec![];
    for prop in props {
        let extra = plan::prepare_inputs(prop, Tier::Quick);
        let n = plan::n_cells(prop, Tier::Quick);
        // spread over the whole index range so that every workload family is included
        let stride = (n / cells_per_prop).max(1);
        for j in 0..cells_per_prop.min(n) {
            let i = j * stride;
            jobs.push((prop.clone(), i, cell_seed(verif_seed, prop, i), extra.args_for(i)));
        }
    }
    let first: Vec<String> = jobs
        .iter()
        .map(|(p, i, seed, extra)| report_line(p, Tier::Quick, *seed, *i, extra))
        .collect();
    let mut order: Vec<usize> = (0..jobs.len()).collect();
    crate::rng::Rng::new(verif_seed ^ 0x5e1f).shuffle(&mut order);
    let second: Mutex<Vec<Option<String>>> = Mutex::new(vec![None; jobs.len()]);
    let next = AtomicU64::new(0);
    std::thread::scope(|scope| {
        for _ in 0..16 {
            scope.spawn(|| {
                loop {
                    let k = next.fetch_add(1, Ordering::SeqCst) as usize;
                    if k >= order.len() {
                        break;
                    }
                    let j = order[k];
                    let (p, i, seed, extra) = &jobs[j];
                    let line = report_line(p, Tier::Quick, *seed, *i, extra);
                    second.lock().unwrap()[j] = Some(line);
                }
            });
        }
    });
    let second = second.into_inner().unwrap();
    let mut bad = 0;
    for (j, (p, i, seed, _)) in jobs.iter().enumerate() {
        let same = second[j].as_deref() == Some(first[j].as_str()) && first[j] != "NO-REPORT";
        if !same {
            bad += 1;
            println!("HARNESS-ERROR: cell {i} of {p} (seed {seed}) differs between two executions");
        }
    }
    println!(
        "selfcheck: {} cells x 2 executions (sequential pass, then 16 workers in shuffled order), {} mismatches, {:.1}s",
        jobs.len(),
        bad,
        t0.elapsed().as_secs_f64()
    );
    if bad > 0 { 2 } else { 0 }
}
