// Generates the Rust side of the simulated host's functions (HostFunctionArgs / HostFunctionRet)
// with the repository's own generator, from abra_host/simhost.abra, exactly as an embedder would.
use std::collections::HashMap;
use std::path::PathBuf;

fn main() {
    println!("cargo:rerun-if-changed=abra_host/simhost.abra");
    println!("cargo:rerun-if-changed=build.rs");
    let src = std::fs::read_to_string("abra_host/simhost.abra").unwrap();
    let mut files = HashMap::new();
    files.insert(PathBuf::from("simhost.abra"), src);
    let out_dir = PathBuf::from(std::env::var("OUT_DIR").unwrap());
    if let Err(e) = abra_core::generate_host_function_enum(
        "simhost.abra",
        abra_core::MockFileProvider::new(files),
        &out_dir,
    ) {
        panic!("{}", e)
    }
}
