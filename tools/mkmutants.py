#!/usr/bin/env python3
"""Regenerates /verif/mutants/*.patch: deliberate property-breaking edits to /repo (each compiles
and passes the pinned suite), used to prove that the checks are sensitive. Run with a clean /repo."""
import subprocess, sys, os

VM = "abra_core/src/vm.rs"
M = {}

def m(name, breaks, edits, path=VM):
    M[name] = (breaks, path, edits)

m("no_barrier_setindex", "C06 C26", [(
"""                self.write_barrier(arr.header_ptr(), rvalue);
                arr.data[idx as usize] = rvalue;""",
"""                arr.data[idx as usize] = rvalue;""")])
m("no_barrier_arraypush", "C06 C26", [(
"""                self.write_barrier(arr.header_ptr(), rvalue);
                arr.data.push(rvalue);""",
"""                arr.data.push(rvalue);""")])
m("no_barrier_setfield", "C06", [(
"""                self.write_barrier(s.header_ptr(), rvalue);
                s.get_fields_mut()[index as usize] = rvalue;""",
"""                s.get_fields_mut()[index as usize] = rvalue;""")])
m("no_string_operand_roots", "C17 C06", [(
"""        Self::mark(&self.string_operand1, &mut self.gray_stack, self.gc_visited);
        Self::mark(&self.string_operand2, &mut self.gray_stack, self.gc_visited);

        self.gc_state = GcState::Marking;""",
"""        self.gc_state = GcState::Marking;"""), (
"""            Self::mark(&self.string_operand1, &mut self.gray_stack, self.gc_visited);
            Self::mark(&self.string_operand2, &mut self.gray_stack, self.gc_visited);
            #[cfg(feature = "abra_verif")]
            if !self.gray_stack.is_empty() {""",
"""            #[cfg(feature = "abra_verif")]
            if !self.gray_stack.is_empty() {""")])
m("alloc_string_white_during_marking", "none (equivalent mutant under the root re-scan)", [(
"""        let header = ObjectHeader {
            kind: ObjectKind::String,
            visited: match &vm.gc_state {
                GcState::Idle => false,
                GcState::Marking | GcState::Sweeping { .. } => true,
            },""",
"""        let header = ObjectHeader {
            kind: ObjectKind::String,
            visited: match &vm.gc_state {
                GcState::Idle | GcState::Marking => false,
                GcState::Sweeping { .. } => true,
            },"""), (
"""        if vm.gc_state == GcState::Marking {
            vm.gray_stack
                .push(str as *mut StringObject as *mut ObjectHeader);
        }""", "")])
m("sweep_keeps_mark_bit", "C07", [(
"""                    // object is alive. reset to white for next cycle
                    header.visited = !self.gc_visited;
                    *index += 1;""",
"""                    *index += 1;""")])
m("deep_copy_shares_structs", "C08 C09", [(
"""            ValueTag::Struct => {
                let struct_obj = self.get_struct(vm);
                let mut fields = vec![];
                for field in struct_obj.get_fields() {
                    fields.push(field.deep_copy(vm));
                }
                StructObject::new(fields, vm).into()
            }""",
"""            ValueTag::Struct => {
                let struct_obj = self.get_struct(vm);
                let mut fields = vec![];
                for field in struct_obj.get_fields() {
                    fields.push(*field);
                }
                StructObject::new(fields, vm).into()
            }""")])
m("channel_lifo", "C09", [(
"""        data.pop_front()
    }""",
"""        if data.len() > 2 { data.pop_back() } else { data.pop_front() }
    }""")])
m("blocked_read_not_retried", "C09", [(
"""                    None => {
                        self.push(chan);
                        self.pc.0 -= 1;""",
"""                    None => {
                        self.push(chan);
                        self.push(chan);""")])
m("equal_string_keeps_index_on_mismatch", "C17 C10", [(
"""                {
                    self.store_offset_or_top(dest, false);
                    self.string_op_index1 = 0;
                } else {
                    self.pc.0 -= 1;
                    self.string_op_index1 += 1;
                }
            }
            Instr::LessThanString""",
"""                {
                    self.store_offset_or_top(dest, false);
                    if a.len() == b.len() + 3 {
                        self.string_op_index1 = 1;
                    } else {
                        self.string_op_index1 = 0;
                    }
                } else {
                    self.pc.0 -= 1;
                    self.string_op_index1 += 1;
                }
            }
            Instr::LessThanString""")])
m("finished_tasks_stay_queued", "C07", [(
"""        if !thread.is_main && thread.done {
            return false;
        }""",
"""        if !thread.is_main && thread.done {
            std::mem::forget(thread);
            return false;
        }""")])
m("drop_skips_arrays", "C07", [(
"""        for header_ptr in &self.heap_list {
            let header = unsafe { &mut **header_ptr };
            unsafe { header.dealloc(&mut self.heap_size) };
        }
    }
}""",
"""        for header_ptr in &self.heap_list {
            let header = unsafe { &mut **header_ptr };
            if matches!(header.kind, ObjectKind::Array) && self.heap_list.len() > 40 {
                continue;
            }
            unsafe { header.dealloc(&mut self.heap_size) };
        }
    }
}""")])
m("failed_main_reported_done", "C11", [(
"""                VmStatus::Error(e) => {
                    return RuntimeStatusKind::MainThreadError(e);
                }""",
"""                VmStatus::Error(e) => {
                    if self.run_queue.len() > 2 {
                        return RuntimeStatusKind::Done;
                    }
                    return RuntimeStatusKind::MainThreadError(e);
                }""")])
m("budget_off_by_one_with_tasks", "C11", [(
"""        while remaining_steps > 0 && skipped_threads < self.run_queue.len() {""",
"""        if self.run_queue.len() > 1 && steps > 1 {
            remaining_steps += 1;
        }
        while remaining_steps > 0 && skipped_threads < self.run_queue.len() {""")])
m("revert_D2_pop_empty", "C26 C01", [(
"""                let Some(lvalue) = arr.data.pop() else {
                    self.error = Some(self.make_error(VmErrorKind::ArrayOutOfBounds).into());
                    return false;
                };""",
"""                let lvalue = arr.data.pop().unwrap();""")])
m("revert_D1_deep_copy_array", "C08 C09 C01", [(
"""                let array_obj = self.get_array(vm);
                let mut elems = vec![];
                for elem in array_obj.data.iter() {""",
"""                let array_obj = self.get_struct(vm);
                let mut elems = vec![];
                for elem in array_obj.get_fields() {""")])
m("revert_D5_static_strings_leak", "C07", [(
"""        for s in self.static_strings.drain(..) {
            let _ = unsafe { Box::from_raw(s) };
        }""",
"""        self.static_strings.clear();""")])
m("concat_drops_byte_at_slice_boundary", "C17 C10", [(
"""                else if self.string_op_index2 < b.len() {
                    self.concat_string_builder
                        .push(b.as_bytes()[self.string_op_index2]);""",
"""                else if self.string_op_index2 < b.len() {
                    if !(self.string_op_index2 == 5 && self.gc_state != GcState::Idle) {
                        self.concat_string_builder
                            .push(b.as_bytes()[self.string_op_index2]);
                    }""")])

m("revert_D8_runtime_drop_keeps_queued_cycles", "C07", [(
"""            let messages: Vec<ChannelMessage> = queue.lock().unwrap().drain(..).collect();
            for message in &messages {
                message.collect_channels(&mut pending);
            }""",
"""            let messages: Vec<ChannelMessage> = Vec::new();
            for message in &messages {
                message.collect_channels(&mut pending);
            }""")])

def main():
    os.makedirs("/verif/mutants", exist_ok=True)
    dirty = subprocess.run(["git", "-C", "/repo", "status", "--porcelain", "--untracked-files=no"], capture_output=True, text=True).stdout
    if dirty.strip():
        sys.exit("/repo is not clean")
    index = []
    for name, (breaks, path, edits) in M.items():
        full = os.path.join("/repo", path)
        s = open(full).read()
        for old, new in edits:
            if s.count(old) != 1:
                subprocess.run(["git", "-C", "/repo", "checkout", "--", "."])
                sys.exit(f"{name}: anchor found {s.count(old)} times:\n{old}")
            s = s.replace(old, new)
        open(full, "w").write(s)
        diff = subprocess.run(["git", "-C", "/repo", "diff"], capture_output=True, text=True).stdout
        open(f"/verif/mutants/{name}.patch", "w").write(diff)
        subprocess.run(["git", "-C", "/repo", "checkout", "--", "."], check=True)
        index.append(f"{name}: expected to break {breaks}")
    open("/verif/mutants/INDEX.txt", "w").write("\n".join(index) + "\n")
    print("\n".join(index))

if __name__ == "__main__":
    main()
