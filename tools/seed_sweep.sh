#!/bin/bash
# usage: seed_sweep.sh <first seed> <last seed> [tier] [binary]
# Runs every claimed property's check at each VERIF_SEED; prints one line per (seed, property).
# On the unchanged tree every line must say exit=0.
from="$1"; to="$2"; tier="${3:-quick}"; bin="${4:-/verif/sim/target/debug/sim}"
for seed in $(seq "$from" "$to"); do
  for p in C01 C06 C07 C08 C09 C10 C11 C17 C26; do
    out=$(VERIF_SEED=$seed "$bin" check "$p" --tier "$tier" 2>&1); code=$?
    echo "seed=$seed $p exit=$code $(echo "$out" | tail -1 | cut -c1-200)"
    if [ "$code" != "0" ]; then echo "$out" | grep -E "^(violation|VIOLATION|HARNESS)" | head -5 | cut -c1-400; fi
  done
done
