#!/bin/bash
# Runs every mutant in /verif/mutants/INDEX.txt against the properties it is expected to break;
# prints one line per (mutant, property): CAUGHT / MISSED.
tier="${1:-quick}"
while IFS= read -r line; do
    name="${line%%:*}"
    props=$(echo "${line##*break }" | grep -oE "C[0-9]{2}" | tr '\n' ' ')
    [ -z "$props" ] && { echo "SKIP $name (no property expected to break)"; continue; }
    out=$(/verif/tools/run_mutant.sh "$name" "$tier" $props 2>&1)
    echo "$out" | grep -E "^== " | while read -r _ m p t e; do
        code="${e#exit=}"
        if [ "$code" = "1" ]; then echo "CAUGHT $m $p"; else echo "MISSED $m $p (exit $code)"; fi
    done
    echo "$out" | grep -E "^violation:" | head -2 | cut -c1-260 | sed 's/^/    /'
done < /verif/mutants/INDEX.txt
