#!/bin/bash
# Runs every mutant in /verif/mutants/INDEX.txt (and the hand-made ones) against the properties it
# is expected to break; prints one line per (mutant, property): CAUGHT / MISSED.
tier="${1:-quick}"
idx=/verif/mutants/INDEX.txt
{ cat "$idx"; echo "revert_D4_root_rescan: expected to break C06 C26 C17"; } | while IFS= read -r line; do
    name="${line%%:*}"
    props="${line##*break }"
    out=$(/verif/tools/run_mutant.sh "$name" "$tier" $props 2>&1)
    echo "$out" | grep -E "^== " | while read -r _ m p t e; do
        code="${e#exit=}"
        if [ "$code" = "1" ]; then echo "CAUGHT $m $p"; else echo "MISSED $m $p (exit $code)"; fi
    done
    echo "$out" | grep -E "^violation:" | head -2 | cut -c1-260 | sed 's/^/    /'
done
