#!/bin/bash
# usage: try_seed.sh <seed dir under /verif/seeded> <tier> <property>...
# Applies /verif/seeded/<dir>/patch.diff to /repo, runs the checks, always reverts.
d="/verif/seeded/$1"; shift
exec /verif/tools/run_mutant.sh "$d/patch.diff" "$@"
