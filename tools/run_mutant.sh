#!/bin/bash
# usage: run_mutant.sh <patch file or mutant name> <tier> <property>...
# Applies a property-breaking patch to /repo, runs the given checks, and always reverts.
patch="$1"; tier="$2"; shift 2
[ -f "$patch" ] || patch="/verif/mutants/$patch.patch"
if [ -n "$(git -C /repo status --porcelain --untracked-files=no)" ]; then echo "/repo not clean"; exit 2; fi
# always revert, and rebuild the simulator from the clean tree so no stale binary is left behind
trap 'git -C /repo checkout -- . ; git -C /repo clean -fdq abra_core 2>/dev/null; (cd /verif/sim && cargo build --offline >/dev/null 2>&1)' EXIT
git -C /repo apply "$patch" || { echo "patch does not apply"; exit 2; }
for p in "$@"; do
    out=$(/verif/check.sh "$p" "$tier" 2>&1); code=$?
    echo "== $(basename "$patch" .patch) $p $tier exit=$code"
    echo "$out" | grep -E "^(VIOLATION|violation:|HARNESS-ERROR|KNOWN-FINDING|  note)" | cut -c1-400 | head -8
    echo "$out" | tail -1 | cut -c1-300
done
