#!/bin/bash
# usage: process_seed.sh <worktree> <demo file under SEED/demo> <name for /verif/seeded/> <property>...
# verify (suite + demo both ways), keep under /verif/seeded/<name>, remove the worktree, run checks.
wt="$1"; demo="$2"; name="$3"; shift 3
/verif/tools/verify_seed.sh "$wt" "$demo" 2>&1 | grep -v "^$"
mkdir -p "/verif/seeded/$name" && cp -r "$wt"/SEED/* "/verif/seeded/$name/"
git -C /repo worktree remove --force "$wt"
/verif/tools/try_seed.sh "$name" quick "$@" 2>&1 | cut -c1-420
