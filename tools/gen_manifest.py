#!/usr/bin/env python3
"""Writes /verif/MANIFEST.json from the tables below (single source for the manifest)."""
import json, subprocess

HOOK_COMMITS = subprocess.run(
    ["git", "-C", "/repo", "log", "--format=%h %s", "--grep", "^verif hooks"],
    capture_output=True, text=True).stdout.strip().splitlines()

TRUSTED = ("Trusted base: the abra_verif hooks in abra_core (controller seam in maybe_gc, quarantine side table and "
           "liveness checks in the object accessors, the independent reachability trace, the event stream), the simulated "
           "embedder and host in /verif/sim, and the Rust models inside the workload generators. Sampling, not proof: a clean "
           "batch is evidence only; enumerated parts are exhaustive only within their stated bounds. abra_core is built "
           "without the ffi feature (single OS thread; the simulator is the only scheduler).")

CLAIMED = {
    "C17": dict(
        category="fault_enumeration",
        technique="deterministic simulation: seeded embedder (step budgets, host stalls) + controller-driven collector pacing; exhaustive sweep of constant budgets and of cycle start points inside every string instruction for small programs; Rust byte-string model",
        text=("Generated string programs (structured pairs: empty, equal, prefix/extension, first difference at each position, "
              "multibyte; operands as constants, locals, heap strings, array elements and popped temporaries whose only reference is the "
              "in-flight operand register; one or two tasks) run under the simulated embedder. For small programs every constant budget "
              "1..=48 and a collection cycle started at every single step of every string instruction (one mark / sweep increment per "
              "instruction afterwards) are enumerated; larger programs get sampled budget sequences, host stalls and collector pacings. "
              "Every comparison and concatenation result is checked against Rust's byte-wise order / concatenation, against the "
              "collector-off reference run, and by the quarantine (use of a reclaimed operand) and the reachability self-check."),
        design_ref="DESIGN.md section 8 (C17)"),
    "C26": dict(
        category="exploration",
        technique="deterministic simulation: seeded operation histories against a Rust Vec model, each history re-executed under seeded step budgets and controller-driven collector pacings with quarantine + reachability self-checks",
        text=("Operation histories (literal, index, index-assign, push, pop, len, is_empty, swap, remove, clear, find, contains, filled, "
              "clone, for-iteration; int / heap-string / nested-array elements; out-of-range and pop-on-empty endings) are rendered to Abra "
              "programs that observe the whole array after every operation. Each history is run under one-increment-per-instruction, "
              "full-cycle-per-instruction, production pacing and sampled pacings crossed with sampled step budgets and host stalls. "
              "Oracles: Rust Vec model operation by operation, ArrayOutOfBounds (never a host panic) at the failing operation, clone / filled "
              "independence, equality with the collector-off reference run, quarantine and reachability self-checks."),
        design_ref="DESIGN.md section 8 (C26)"),
}

NOT_APPLICABLE = {
    "C02": "pure function from program to outcome; no schedule, fault or interleaving enters its statement (GC- and slicing-independence of outcomes are decided under C06/C10)",
    "C03": "concerns check vs compile_bytecode only; the compiler is a one-shot single-threaded pure function of the text",
    "C04": "totality of the compiler on arbitrary text; pure function of the text, nothing to schedule or fault",
    "C05": "optimizer on/off and literal/variable operand forms; compile-time transformation, pure",
    "C12": "exhaustiveness analysis is compile-time and arm selection is a pure function of the value",
    "C13": "redundancy analysis; compile-time only",
    "C14": "arm selection and binding; pure function of (type, arms, value)",
    "C15": "integer arithmetic; pure function of the operands",
    "C16": "float arithmetic; pure function of the operands",
    "C18": "argument reordering and defaults; compile-time, pure",
    "C19": "capture-by-value is decided by compile-time capture analysis; closures are ordinary heap structs whose collection safety is decided under C06",
    "C20": "mutability checking; compile-time only",
    "C21": "name resolution and imports; compile-time only, the file provider is read once per file with no retry or fault path in the property",
    "C22": "monomorphisation and impl selection; compile-time, pure",
    "C23": "? and ! lowering; single-thread control flow, pure",
    "C24": "laws of ==, ordering and hash; pure functions of values",
    "C25": "sorting is Abra library code; pure function of the array",
    "C27": "core/map and core/set are Abra library code, pure given a correct VM",
    "C28": "value rendering; pure",
    "C29": "comments / separators; lexer and parser only",
    "C30": "literals; lexer and parser only",
    "C31": "operator precedence; parser only",
    "C32": "error location tables; pure function of the program (slicing-independence of the reported error is decided under C10)",
    "C33": "diagnostic ranges; compile-time only",
    "C34": "check_lsp and its queries are stateless functions of (text, offset); no message loop, clock or I/O in what the property anchors",
    "C35": "same as C34: stateless functions of (text, offset)",
    "C36": "marshalling code generation is a pure function of (signature, value); the host-call protocol facet (arguments exposed, result resumed, under any servicing delay) is decided under C11",
    "C37": "single-threaded in-memory container (!Send); no concurrency, time, I/O or crash surface",
    "C38": "single-threaded in-memory arena; no concurrency, time, I/O or crash surface",
}

PENDING = {k: "applicable (see DESIGN.md section 2); its check is not built yet in this revision" for k in ["C01", "C06", "C07", "C08", "C09", "C10", "C11"]}

def main():
    checks = []
    for pid in sorted(CLAIMED):
        c = CLAIMED[pid]
        checks.append({
            "property_id": pid,
            "quick_cmd": f"./check.sh {pid} quick",
            "thorough_cmd": f"./check.sh {pid} thorough",
            "evidence_file": f"/verif/evidence/{pid}.json",
            "replay_cmd_template": "/verif/sim/target/debug/sim replay {path}",
            "engine": "abra-sim",
            "level_claimed": {"category": c["category"], "text": c["text"], "design_ref": c["design_ref"]},
            "level_note": TRUSTED,
            "technique": c["technique"],
        })
    na = [{"property_id": k, "reason": v} for k, v in sorted({**NOT_APPLICABLE, **PENDING}.items())]
    manifest = {
        "version": 1,
        "setup_cmd": "cd /verif/sim && CARGO_NET_OFFLINE=true cargo build --offline",
        "hooks": {
            "guard": "cargo feature abra_verif of abra_core (off by default)",
            "enable": "abra_core = { path = \"/repo/abra_core\", features = [\"abra_verif\"] } in /verif/sim/Cargo.toml; every check runs cargo build first, so it always rebuilds from /repo's working tree",
            "baseline_off_cmd": "cd /repo && cargo nextest run --workspace --no-fail-fast --offline --test-threads 8",
            "source_commits": [l.split()[0] for l in HOOK_COMMITS],
            "add_only": True,
        },
        "engines": [{
            "name": "abra-sim",
            "path": "/verif/sim",
            "serves_properties": sorted(CLAIMED),
            "kind_free_text": "deterministic simulator: one seeded PRNG decides every step budget, host-call deferral and collector increment; cells are fresh OS processes (one compile each); violations are minimised (schedule entries, then program lines) and written as replay files that `sim replay` re-executes in a fresh process",
        }],
        "checks": checks,
        "not_applicable": na,
        "notes": "See DESIGN.md. FIXED/KNOWN findings are in known_findings.json. VERIF_SEED (default 1) seeds everything; VERIF_TIER or the second argument of check.sh selects quick / thorough.",
    }
    json.dump(manifest, open("/verif/MANIFEST.json", "w"), indent=1)
    print("claimed:", sorted(CLAIMED), "n/a:", len(na))

if __name__ == "__main__":
    main()
