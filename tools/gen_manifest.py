#!/usr/bin/env python3
"""Writes /verif/MANIFEST.json from the tables below (single source for the manifest)."""
import json, subprocess

HOOK_COMMITS = subprocess.run(
    ["git", "-C", "/repo", "log", "--format=%h %s", "--grep", "^verif hooks"],
    capture_output=True, text=True).stdout.strip().splitlines()

TRUSTED = ("Trusted base: the abra_verif hooks in abra_core (controller seam in maybe_gc, quarantine side table and "
           "liveness checks in the object accessors, the independent reachability trace, the event stream), the simulated "
           "embedder and host in /verif/sim, and the Rust models inside the workload generators. Sampling, not proof: a clean "
           "batch is evidence only; enumerated parts are exhaustive only within their stated bounds. abra_core is built "
           "without the ffi feature (single OS thread; the simulator is the only scheduler).")

CLAIMED = {
    "C01": dict(
        category="exploration",
        technique="deterministic simulation: repository corpus + all generated workload families under every simulated fault kind at once (seeded step budgets, host-call deferral, controller-driven collector pacing); fault oracle = panic / abort / internal error kind / quarantine hit / stack desync",
        text=("The schedule dimension of the property: every program of the repository corpus that compiles (raw-string programs of the e2e and "
              "thread tests, import-free examples; extracted from the current tree at check time) and generated programs of every workload family "
              "(channels and tasks, captures, collector-heavy mutators, array histories, string cases, host-call traffic) are run under sampled step "
              "budgets (including 0 and u32::MAX), host-call deferrals and collector pacings. A run violates the property if a Rust panic escapes "
              "run_n_steps, host servicing or Drop, the cell process dies, an internal error kind is reported, a reclaimed object is touched "
              "(quarantine) or a reachable object is reclaimed; documented runtime errors are legal outcomes. The same oracle is evaluated in every "
              "run of every other claimed property. Not covered: a typed grammar over every statement / expression form (program-shape half of the "
              "quantifier) - shapes come from the corpus and the generators only."),
        design_ref="DESIGN.md section 8 (C01)"),
    "C06": dict(
        category="fault_enumeration",
        technique="deterministic simulation with collector-schedule fault injection: exhaustive sweep of the start point of a single collection cycle (x 4 increment shapes) over small mutator programs, seeded multi-cycle pacings over large ones; oracles: reachability self-check at sweep end, quarantine, collector-off reference run",
        text=("Generated mutator programs dense in move patterns (pop-and-store across containers inside callees, get-then-overwrite, struct / enum / "
              "closure / option churn, iteration with allocation), plus array, string and channel workloads. For every small program a single "
              "collection cycle is started at EVERY instruction of the execution, crossed with four increment shapes (1 mark + 1 sweep per "
              "instruction; full mark then 1 sweep; 1 mark then full sweep; everything at once = production shape). Larger programs get sampled "
              "multi-cycle pacings (one increment per instruction, full cycle per instruction, starve-then-finish, sparse / dense / targeted random "
              "starts, production heuristic plus forced starts) crossed with step budgets and host stalls. Violation: an object reachable from the "
              "operand stack or an in-flight string operand has been reclaimed when a sweep completes (independent trace), any later access to a "
              "reclaimed object (quarantine), or any observable difference from the collector-off run."),
        design_ref="DESIGN.md section 8 (C06)"),
    "C07": dict(
        category="exploration",
        technique="deterministic simulation with lifecycle fault injection: runtimes dropped at seeded instants (mid-mark, mid-sweep, mid string op, tasks parked / blocked, messages queued, host call abandoned) repeated six times under a counting global allocator; interleaved multi-runtime create/run/drop histories; quiescent-full-collection completeness vs collector-off run; peak heap at N vs 4N under production pacing",
        text=("(a) A runtime life (create, run under a sampled schedule, drop at a sampled instruction) is executed six times from its recorded trace; "
              "process live bytes (counting #[global_allocator]) must not keep growing over the last four iterations - whatever the drop instant. "
              "Interleaved histories of up to four runtimes (production pacing) get the same treatment. (b) After a run under any pacing (or at a "
              "sampled intermediate point for task-free programs) two quiescent full collections must leave exactly as many live objects as after the "
              "collector-off run to the same point. (c) Programs whose reachable set is constant by construction (ring buffer, reset accumulator, a "
              "task per iteration, struct/closure churn, request/response with heap messages, table rebuilt in place) take their size N from the host; "
              "peak VM heap and peak process memory at 4N must stay within 1.25x (+4 KiB) resp. 1.5x (+256 KiB) of the peak at N under the real pacing "
              "heuristic and several constant budgets."),
        design_ref="DESIGN.md section 8 (C07)"),
    "C08": dict(
        category="exploration",
        technique="deterministic simulation: seeded capture programs (10 value kinds, nested, up to 4 captures) with mutations on both sides in both orders separated by stall points, under seeded budgets, host stalls and collector pacings; generator model of what each side must see",
        text=("For each capturable kind (array<int>, array<string>, nested arrays, struct with array field, tuple with array, enum with array payload, "
              "string, closure capturing an array, option<array>, int) the program spawns a task capturing 1-4 values, mutates them on the task side "
              "and on the spawner side (either order, enforced through channels, with pause() stall points in between) and reports both views. "
              "Variants drop the spawner's references and force its collector while the task still uses its copies, and the other way round. "
              "Oracles: the generator's model (task sees the value as of the spawn, neither side sees the other's later mutations), equality with the "
              "reference run, the fault oracle (quarantine catches structure shared between the two heaps once one side reclaims it)."),
        design_ref="DESIGN.md section 8 (C08)"),
    "C09": dict(
        category="exploration",
        technique="deterministic simulation: seeded producer/consumer programs (7 shapes x 8 value kinds) under seeded budgets, host stalls, collector pacings, task death and task failure; FIFO reference model checked at every channel event; starvation invariant on the event stream; quarantine for values outliving their writer",
        text=("Shapes: pipeline, fan-in, writer-dies-first (writer finished and freed, or alive but collected, before the read; reader then mutates and "
              "re-sends), request/response, independence (writer keeps, mutates and re-sends what it sent; reader mutates and returns it), main "
              "leaves early, failing task. Every written value is unique. Online oracles on the hook event stream: per-channel FIFO model (a read "
              "returns exactly the oldest unread written value by structural digest; a read finds the channel empty only if the model queue is empty; "
              "nothing is read twice), every runnable task gets a turn within 4 x (tasks+1) scheduler turns while others are blocked or parked. "
              "Offline: generator model of all observations (multiset for fan-in), drained channels, completion within a generous bound once faults "
              "stop, reference-run equality, fault oracle."),
        design_ref="DESIGN.md section 8 (C09)"),
    "C10": dict(
        category="exploration",
        technique="deterministic simulation over embedder slicing: every constant budget 1..=64 and a two-phase budget grid for short task-free programs, seeded budget sequences (incl. 0 and u32::MAX) and host-call deferrals otherwise; output / final value / full error text compared with the reference slicing",
        text=("Part 1 (no tasks): corpus programs, string cases, array histories and host-call/status programs (each runtime error kind raised three "
              "calls deep). Programs of at most 400 instructions are run at every constant budget 1..=64 and on a grid of two-phase budgets (k1 until "
              "instruction j, then k2); all programs get sampled budget sequences with zero-budget calls and deferred host calls. Compared with the "
              "reference slicing (one call, immediate service): every host call with its arguments in order, final value, complete error text "
              "(kind, location, traceback). Part 2: channel programs of the determinate shapes that print only from main, with sampled budgets and "
              "delays of main's host calls; main's output must equal the reference. The collector runs under its production heuristic in all C10 "
              "runs so that a difference is attributable to slicing alone."),
        design_ref="DESIGN.md section 8 (C10)"),
    "C11": dict(
        category="exploration",
        technique="deterministic simulation: shadow model of RuntimeStatus fed by hook events, checked after every run_n_steps call under seeded budgets / host deferrals / collector pacings; real generated host bindings for an echo family with generator-known arguments and results",
        text=("After every run_n_steps(k) call: at most k instructions executed (counted from the event stream) and steps_consumed <= k; Done exactly "
              "from the call in which main executes its last instruction onward (kept under further calls), never before, never after a failure; "
              "MainThreadError(kind) exactly from the call in which main fails, with the kind the VM raised; PendingHostFunc only while some task is "
              "parked, and always while main itself is parked; the value of a final expression statement equals the generator-known value. Host "
              "calls go through the code the repository generates for simhost.abra: the arguments the host receives (ints, floats, bools, strings, "
              "arrays, nested arrays, options, results, a host struct, a host enum, a 4-tuple) must equal the generator-known ones in order, and the "
              "program must then observe exactly the transformed value the host returned - under any deferral, budget and collector phase. Programs "
              "include main finishing while other tasks run, block, are parked or have failed."),
        design_ref="DESIGN.md section 8 (C11)"),
    "C17": dict(
        category="fault_enumeration",
        technique="deterministic simulation: seeded embedder (step budgets, host stalls) + controller-driven collector pacing; exhaustive sweep of constant budgets and of cycle start points inside every string instruction for small programs; Rust byte-string model",
        text=("Generated string programs (structured pairs: empty, equal, prefix/extension, first difference at each position, "
              "multibyte; operands as constants, locals, heap strings, array elements and popped temporaries whose only reference is the "
              "in-flight operand register; one or two tasks) run under the simulated embedder. For small programs every constant budget "
              "1..=48 and a collection cycle started at every single step of every string instruction (one mark / sweep increment per "
              "instruction afterwards) are enumerated; larger programs get sampled budget sequences, host stalls and collector pacings. "
              "Every comparison and concatenation result is checked against Rust's byte-wise order / concatenation, against the "
              "collector-off reference run, and by the quarantine (use of a reclaimed operand) and the reachability self-check."),
        design_ref="DESIGN.md section 8 (C17)"),
    "C26": dict(
        category="exploration",
        technique="deterministic simulation: seeded operation histories against a Rust Vec model, each history re-executed under seeded step budgets and controller-driven collector pacings with quarantine + reachability self-checks",
        text=("Operation histories (literal, index, index-assign, push, pop, len, is_empty, swap, remove, clear, find, contains, filled, "
              "clone, for-iteration; int / heap-string / nested-array elements; out-of-range and pop-on-empty endings) are rendered to Abra "
              "programs that observe the whole array after every operation. Each history is run under one-increment-per-instruction, "
              "full-cycle-per-instruction, production pacing and sampled pacings crossed with sampled step budgets and host stalls. "
              "Oracles: Rust Vec model operation by operation, ArrayOutOfBounds (never a host panic) at the failing operation, clone / filled "
              "independence, equality with the collector-off reference run, quarantine and reachability self-checks."),
        design_ref="DESIGN.md section 8 (C26)"),
}

NOT_APPLICABLE = {
    "C02": "pure function from program to outcome; no schedule, fault or interleaving enters its statement (GC- and slicing-independence of outcomes are decided under C06/C10)",
    "C03": "concerns check vs compile_bytecode only; the compiler is a one-shot single-threaded pure function of the text",
    "C04": "totality of the compiler on arbitrary text; pure function of the text, nothing to schedule or fault",
    "C05": "optimizer on/off and literal/variable operand forms; compile-time transformation, pure",
    "C12": "exhaustiveness analysis is compile-time and arm selection is a pure function of the value",
    "C13": "redundancy analysis; compile-time only",
    "C14": "arm selection and binding; pure function of (type, arms, value)",
    "C15": "integer arithmetic; pure function of the operands",
    "C16": "float arithmetic; pure function of the operands",
    "C18": "argument reordering and defaults; compile-time, pure",
    "C19": "capture-by-value is decided by compile-time capture analysis; closures are ordinary heap structs whose collection safety is decided under C06",
    "C20": "mutability checking; compile-time only",
    "C21": "name resolution and imports; compile-time only, the file provider is read once per file with no retry or fault path in the property",
    "C22": "monomorphisation and impl selection; compile-time, pure",
    "C23": "? and ! lowering; single-thread control flow, pure",
    "C24": "laws of ==, ordering and hash; pure functions of values",
    "C25": "sorting is Abra library code; pure function of the array",
    "C27": "core/map and core/set are Abra library code, pure given a correct VM",
    "C28": "value rendering; pure",
    "C29": "comments / separators; lexer and parser only",
    "C30": "literals; lexer and parser only",
    "C31": "operator precedence; parser only",
    "C32": "error location tables; pure function of the program (slicing-independence of the reported error is decided under C10)",
    "C33": "diagnostic ranges; compile-time only",
    "C34": "check_lsp and its queries are stateless functions of (text, offset); no message loop, clock or I/O in what the property anchors",
    "C35": "same as C34: stateless functions of (text, offset)",
    "C36": "marshalling code generation is a pure function of (signature, value); the host-call protocol facet (arguments exposed, result resumed, under any servicing delay) is decided under C11",
    "C37": "single-threaded in-memory container (!Send); no concurrency, time, I/O or crash surface",
    "C38": "single-threaded in-memory arena; no concurrency, time, I/O or crash surface",
}

PENDING = {}

def main():
    checks = []
    for pid in sorted(CLAIMED):
        c = CLAIMED[pid]
        checks.append({
            "property_id": pid,
            "quick_cmd": f"./check.sh {pid} quick",
            "thorough_cmd": f"./check.sh {pid} thorough",
            "evidence_file": f"/verif/evidence/{pid}.json",
            "replay_cmd_template": "/verif/sim/target/debug/sim replay {path}",
            "engine": "abra-sim",
            "level_claimed": {"category": c["category"], "text": c["text"], "design_ref": c["design_ref"]},
            "level_note": TRUSTED,
            "technique": c["technique"],
        })
    na = [{"property_id": k, "reason": v} for k, v in sorted({**NOT_APPLICABLE, **PENDING}.items())]
    manifest = {
        "version": 1,
        "setup_cmd": "cd /verif/sim && CARGO_NET_OFFLINE=true cargo build --offline",
        "hooks": {
            "guard": "cargo feature abra_verif of abra_core (off by default)",
            "enable": "abra_core = { path = \"/repo/abra_core\", features = [\"abra_verif\"] } in /verif/sim/Cargo.toml; every check runs cargo build first, so it always rebuilds from /repo's working tree",
            "baseline_off_cmd": "cd /repo && cargo nextest run --workspace --no-fail-fast --offline --test-threads 8",
            "source_commits": [l.split()[0] for l in HOOK_COMMITS],
            "add_only": True,
        },
        "engines": [{
            "name": "abra-sim",
            "path": "/verif/sim",
            "serves_properties": sorted(CLAIMED),
            "kind_free_text": "deterministic simulator: one seeded PRNG decides every step budget, host-call deferral and collector increment; cells are fresh OS processes (one compile each); violations are minimised (schedule entries, then program lines) and written as replay files that `sim replay` re-executes in a fresh process",
        }],
        "checks": checks,
        "not_applicable": na,
        "notes": "See DESIGN.md. FIXED/KNOWN findings are in known_findings.json. VERIF_SEED (default 1) seeds everything; VERIF_TIER or the second argument of check.sh selects quick / thorough.",
    }
    json.dump(manifest, open("/verif/MANIFEST.json", "w"), indent=1)
    print("claimed:", sorted(CLAIMED), "n/a:", len(na))

if __name__ == "__main__":
    main()
