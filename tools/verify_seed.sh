#!/bin/bash
# usage: verify_seed.sh <worktree with the change applied and SEED/> <demo file name under SEED/demo> [extra cargo test args]
# Confirms: (1) the pinned suite passes with the change, (2) the demo fails with it, (3) the demo
# passes without it. Leaves the worktree with the change applied and the demo removed.
wt="$1"; demo="$2"; shift 2
cd "$wt" || exit 2
name="${demo%.rs}"
echo "## suite with the change"
cargo nextest run --workspace --no-fail-fast --offline --test-threads 8 2>&1 | tail -2
cp "SEED/demo/$demo" "abra_core/tests/$demo"
echo "## demo with the change (expected: FAILED)"
cargo test -p abra_core --test "$name" --offline "$@" 2>&1 | grep -E "^test result|error(\[|:)" | tail -4
git diff -- . ':!SEED' > /tmp/verify_seed_patch.diff
git checkout -q -- abra_core/src modules 2>/dev/null
echo "## demo without the change (expected: ok)"
cargo test -p abra_core --test "$name" --offline "$@" 2>&1 | grep -E "^test result|error(\[|:)" | tail -4
git apply /tmp/verify_seed_patch.diff
rm -f "abra_core/tests/$demo"
git status --short | head -5
